#!/usr/bin/env python3
"""Input that made fastPASTA panic at the end of a run before fix 9ffb299 (finding F19):
the first packet is an ITS packet that does not match the stave filter, the following (matching) packets carry another
system id (19 = TST), so the analysis thread never records a layer/stave while the collector believes the data is ITS.
usage: F19_make_input.py <repo>/tests/test-data out.raw ; fastpasta out.raw check all its-stave --filter-its-stave L0_12"""
import struct, sys
def packets(b):
    i = 0; out = []
    while i + 64 <= len(b):
        off = struct.unpack_from('<H', b, i + 8)[0]
        if off < 64: break
        out.append(b[i:i + off]); i += off
    return out
d = sys.argv[1]
a = packets(open(d + '/readout.superpage.1.raw', 'rb').read())
c = packets(open(d + '/invalid_lane_order_1hbf.raw', 'rb').read())
out = bytearray(a[0])
for p in c:
    q = bytearray(p); q[5] = 19; out += q
open(sys.argv[2], 'wb').write(out)
