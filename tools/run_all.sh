#!/bin/bash
# run every claimed property's quick check sequentially; summary in /tmp/fpv-all/summary.txt
mkdir -p /tmp/fpv-all; : > /tmp/fpv-all/summary.txt
cd /verif
for p in $(python3 -c "import json;print(' '.join(c['property_id'] for c in json.load(open('MANIFEST.json'))['checks']))"); do
  [ -n "$1" ] && [[ ! " $* " =~ " $p " ]] && continue
  s=$(date +%s)
  VERIF_LOGDIR=/tmp/fpv-all/$p ./check $p --tier quick > /tmp/fpv-all/$p.out 2>&1; rc=$?
  e=$(date +%s)
  echo "$p rc=$rc wall=$((e-s))s $(grep -c VIOLATION /tmp/fpv-all/$p.out) violations" >> /tmp/fpv-all/summary.txt
done
echo DONE >> /tmp/fpv-all/summary.txt
