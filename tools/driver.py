#!/usr/bin/env python3
"""Driver: ./check <Cxx> [--tier quick|thorough] [--replay <file>] [--keep]

exit 0  every obligation selected for the property was discharged (KNOWN-FINDING lines allowed)
exit 1  at least one VIOLATION line was printed
exit 2  inconclusive (lost anchor, compile error, tool crash, timeout, vacuity guard) - never an alarm
"""
import json, os, re, shutil, subprocess, sys, time, glob, signal

VERIF = os.path.dirname(os.path.dirname(os.path.abspath(__file__)))
sys.path.insert(0, VERIF + "/tools")
import prepare_scratch  # noqa: E402
import verus_engine  # noqa: E402

REPO = prepare_scratch.REPO
NCPU = int(os.environ.get("VERIF_JOBS", str(min(10, os.cpu_count() or 8))))
TAG_RE = re.compile(r"\[(C\d{2}|NEG)\]")


def log(*a):
    print(*a, file=sys.stderr, flush=True)


# ----------------------------------------------------------------------------- registry

def module_path(rel, modname):
    """fastpasta/src/a/b.rs + verif_x -> ('fastpasta', 'a::b::verif_x')"""
    pkg, rest = rel.split("/src/", 1)
    rest = rest[:-3]
    parts = rest.split("/")
    if parts == ["lib"] or parts == ["main"]:
        parts = []
    elif parts[-1] == "mod":
        parts = parts[:-1]
    return pkg, "::".join(parts + [modname])


def load_registry():
    att = json.load(open(VERIF + "/contracts/kani/attach.json"))
    reg = []
    for rel, mods in att["modules"].items():
        for m in mods:
            modname = "verif_" + os.path.splitext(os.path.basename(m))[0]
            pkg, mp = module_path(rel, modname)
            text = open(VERIF + "/contracts/kani/" + m).read()
            marks = list(re.finditer(r"(?m)^// @harness (.*)$", text))
            for mi, mt in enumerate(marks):
                kv = dict(x.split("=", 1) for x in mt.group(1).split())
                hid = kv["id"]
                # a harness is selected for every property one of its assertions is tagged with: the tags of the text
                # between this registry line and the next one are added to the declared props (a tag on an assertion of a
                # harness that is never run for that property would be dead)
                block = text[mt.end():marks[mi + 1].start() if mi + 1 < len(marks) else len(text)]
                extra = sorted(set(re.findall(r"\[(C\d{2})\]", block)) - set(kv["props"].split(",")))
                if extra and kv.get("kind", "full") != "neg":
                    kv["props"] = kv["props"] + "," + ",".join(extra)
                reg.append({
                    "id": hid,
                    "full": mp + "::" + hid,
                    "pkg": pkg,
                    "file": m,
                    "attached_to": rel,
                    "props": kv["props"].split(","),
                    "kind": kv.get("kind", "full"),
                    "tier": kv.get("tier", "quick"),
                    "expect": kv.get("expect", "pass"),
                    "fns": kv.get("fns", "").split(",") if kv.get("fns") else [],
                    "bound": kv.get("bound"),
                    "stubs": kv.get("stubs", "").split(",") if kv.get("stubs") else [],
                })
    ids = [h["id"] for h in reg]
    dup = {i for i in ids if ids.count(i) > 1}
    if dup:
        raise SystemExit(f"duplicate harness ids: {dup}")
    return reg


# ----------------------------------------------------------------------------- kani

MEM_LIMIT_GB = int(os.environ.get("VERIF_MEM_GB", "12"))


PEAK_RSS = {}   # harness id (suffix of the goto binary name) -> peak resident MB


def _watch_mem(pgid, stop):
    """kill any cbmc process of our process group whose resident set exceeds the limit (then Kani reports
    'CBMC failed' for that harness, which the driver maps to inconclusive)"""
    page = os.sysconf("SC_PAGE_SIZE")
    while not stop.is_set():
        try:
            for d in os.listdir("/proc"):
                if not d.isdigit():
                    continue
                try:
                    st = open(f"/proc/{d}/stat").read()
                    comm = st[st.index("(") + 1:st.rindex(")")]
                    if comm != "cbmc":
                        continue
                    fields = st[st.rindex(")") + 2:].split()
                    if int(fields[2]) != pgid:
                        continue
                    rss = int(fields[21]) * page
                    try:
                        cl = open(f"/proc/{d}/cmdline").read()
                        mm = re.search(r"(\w+)\.out", cl)
                        if mm:
                            key = mm.group(1)
                            PEAK_RSS[key] = max(PEAK_RSS.get(key, 0), rss >> 20)
                    except OSError:
                        pass
                    if rss > MEM_LIMIT_GB * (1 << 30):
                        os.kill(int(d), signal.SIGKILL)
                except (OSError, ValueError):
                    continue
        except OSError:
            pass
        stop.wait(2.0)


def run_kani(scratch, pkg, harnesses, timeout_s, harness_timeout=600, extra=None):
    src = scratch + "/src"
    cmd = ["cargo", "kani", "-p", pkg, "-Z", "stubbing", "-Z", "function-contracts",
           "-Z", "unstable-options", "--harness-timeout", f"{harness_timeout}s",
           "--output-format=terse", "-j", str(max(2, min(NCPU, len(harnesses)))), "--exact"]
    for h in harnesses:
        cmd += ["--harness", h["full"]]
    if extra:
        cmd += extra
    env = dict(os.environ)
    env["CARGO_NET_OFFLINE"] = "true"
    env["CARGO_TARGET_DIR"] = scratch + "/target"
    env.pop("RUSTUP_TOOLCHAIN", None)
    t0 = time.time()
    try:
        import threading
        p = subprocess.Popen(cmd, cwd=src, env=env, stdout=subprocess.PIPE, stderr=subprocess.STDOUT,
                             text=True, start_new_session=True)
        stop = threading.Event()
        th = threading.Thread(target=_watch_mem, args=(p.pid, stop), daemon=True)
        th.start()
        try:
            out, _ = p.communicate(timeout=timeout_s)
            rc = p.returncode
        except subprocess.TimeoutExpired:
            os.killpg(p.pid, signal.SIGKILL)
            out, _ = p.communicate()
            rc = -9
        finally:
            stop.set()
    except FileNotFoundError as e:
        return {"cmd": cmd, "rc": 127, "out": str(e), "wall": 0.0}
    return {"cmd": cmd, "rc": rc, "out": out, "wall": time.time() - t0}


def parse_kani(out, harnesses):
    """-> {full_name: {status, total, failed, unreachable, undetermined, failed_checks[], covers_sat, covers_total, time}}"""
    res = {}
    cur_by_thread = {}
    cur = None
    lines = out.splitlines()
    i = 0
    thread = None
    while i < len(lines):
        ln = lines[i]
        m = re.match(r"^(?:Thread (\d+): )?Checking harness (\S+?)\.\.\.$", ln)
        if m:
            thread = m.group(1)
            cur_by_thread[thread] = m.group(2)
            res.setdefault(m.group(2), {"status": "UNKNOWN", "total": 0, "failed": 0, "unreachable": 0,
                                        "undetermined": 0, "failed_checks": [], "covers_sat": 0,
                                        "covers_total": 0, "time": 0.0})
            cur = m.group(2)
            i += 1
            continue
        m = re.match(r"^Thread (\d+): ?$", ln)
        if m:
            cur = cur_by_thread.get(m.group(1))
            i += 1
            continue
        if cur is not None:
            r = res[cur]
            m = re.match(r"^ \*\* (\d+) of (\d+) failed(?: \((.*)\))?", ln)
            if m:
                r["failed"] = int(m.group(1))
                r["total"] = int(m.group(2))
                for part in (m.group(3) or "").split(","):
                    part = part.strip()
                    mm = re.match(r"(\d+) (unreachable|undetermined)", part)
                    if mm:
                        r[mm.group(2)] = int(mm.group(1))
            m = re.match(r"^ \*\* (\d+) of (\d+) cover properties satisfied", ln)
            if m:
                r["covers_sat"] = int(m.group(1))
                r["covers_total"] = int(m.group(2))
            m = re.match(r"^Failed Checks: (.*)$", ln)
            if m:
                desc = m.group(1).strip()
                loc = ""
                if i + 1 < len(lines) and lines[i + 1].startswith(" File:"):
                    loc = lines[i + 1].strip()
                r["failed_checks"].append({"desc": desc, "loc": loc})
            if ln.startswith("CBMC timed out") or ln.startswith("CBMC failed") or ln.startswith("CBMC appears to have run out of memory"):
                r["tool_failure"] = ln.strip()
            m = re.match(r"^VERIFICATION:- (\w+)", ln)
            if m:
                r["status"] = m.group(1)
            m = re.match(r"^Verification Time: ([\d.]+)s", ln)
            if m:
                r["time"] = float(m.group(1))
        i += 1
    return res


def compile_failed(out):
    return ("error: could not compile" in out or re.search(r"(?m)^error(\[E\d+\])?:", out) is not None) \
        and "Checking harness" not in out


# ----------------------------------------------------------------------------- findings

def load_findings():
    p = VERIF + "/known_findings.json"
    if not os.path.exists(p):
        return []
    return json.load(open(p)).get("findings", [])


def match_finding(findings, prop, harness_id, desc, loc):
    for f in findings:
        if f.get("status") != "known":
            continue
        if prop not in f.get("properties", []):
            continue
        if f.get("harness") not in (None, harness_id):
            continue
        if f.get("check_contains") and f["check_contains"] not in desc:
            continue
        if f.get("loc_contains") and f["loc_contains"] not in loc:
            continue
        return f
    return None


# ----------------------------------------------------------------------------- replay

def concrete_playback(scratch, h, timeout_s=900):
    """Re-run one failing harness with concrete playback; return (text of generated unit test or None, raw output)."""
    src = scratch + "/src"
    cmd = ["cargo", "kani", "-p", h["pkg"], "-Z", "stubbing", "-Z", "function-contracts",
           "-Z", "concrete-playback", "--concrete-playback=print", "--exact", "--harness", h["full"]]
    env = dict(os.environ)
    env["CARGO_NET_OFFLINE"] = "true"
    env["CARGO_TARGET_DIR"] = scratch + "/target"
    env.pop("RUSTUP_TOOLCHAIN", None)
    # own process group + the same memory watchdog as the verification runs: the trace-producing CBMC run can need far
    # more memory than the refutation itself (26 GB seen); on timeout / memory cap there is simply no concrete input
    import threading
    p = subprocess.Popen(cmd, cwd=src, env=env, stdout=subprocess.PIPE, stderr=subprocess.STDOUT, text=True,
                         start_new_session=True)
    stop = threading.Event()
    th = threading.Thread(target=_watch_mem, args=(p.pid, stop), daemon=True)
    th.start()
    try:
        out, _ = p.communicate(timeout=timeout_s)
    except subprocess.TimeoutExpired:
        try:
            os.killpg(p.pid, signal.SIGKILL)
        except ProcessLookupError:
            pass
        p.communicate()
        return None, "timeout in concrete playback"
    finally:
        stop.set()
    test = None
    for m in re.finditer(r"```\n(.*?)```", out, re.S):
        if "Check for `cover`" in m.group(1):
            continue
        test = m.group(1)
        break
    # keep only the tail of the raw output
    k = out.find("SUMMARY:")
    tail = out[k:] if k >= 0 else "\n".join(l for l in out.splitlines() if not re.match(r"^\s*(Compiling|warning|\||=|-->|\d+ \|)", l))
    tail = re.sub(r"(?s)Concrete playback unit test.*?```\n.*?```\n", "", tail)
    return test, tail[-4000:]


def native_replay(scratch, h, test_text, timeout_s=900):
    """Inject the generated unit test next to the harness and run it natively (cargo kani playback):
    the harness body calls the real functions, so this is the counterexample replayed on the real code."""
    if not test_text:
        return None
    src = scratch + "/src"
    # append the test to the attached module file in the scratch tree
    mfile = VERIF + "/contracts/kani/" + h["file"]
    tmp_mod = scratch + "/replay_" + h["id"] + ".rs"
    body = open(mfile).read() + "\n" + test_text + "\n"
    open(tmp_mod, "w").write(body)
    tgt = src + "/" + h["attached_to"]
    t = open(tgt).read()
    t = t.replace(f'#[path = "{mfile}"]', f'#[path = "{tmp_mod}"]')
    open(tgt, "w").write(t)
    mt = re.search(r"fn (kani_concrete_playback_\w+)", test_text)
    if not mt:
        return None
    cmd = ["cargo", "kani", "playback", "-Z", "concrete-playback", "-p", h["pkg"], "--", mt.group(1)]
    env = dict(os.environ)
    env["CARGO_NET_OFFLINE"] = "true"
    env["CARGO_TARGET_DIR"] = scratch + "/target-playback"
    env.pop("RUSTUP_TOOLCHAIN", None)
    try:
        p = subprocess.run(cmd, cwd=src, env=env, stdout=subprocess.PIPE, stderr=subprocess.STDOUT, text=True,
                           timeout=timeout_s)
    except subprocess.TimeoutExpired:
        return {"ran": False, "note": "timeout"}
    out = p.stdout
    tail = "\n".join(l for l in out.splitlines() if not re.match(r"^\s*(Compiling|warning|\||=|-->|\d+ \|)", l))
    reproduced = ("panicked at" in out) and p.returncode != 0
    return {"ran": True, "reproduced_natively": reproduced, "rc": p.returncode, "output_tail": tail[-3000:]}


# ----------------------------------------------------------------------------- main

def main(argv):
    import argparse
    ap = argparse.ArgumentParser()
    ap.add_argument("prop")
    ap.add_argument("--tier", default=os.environ.get("VERIF_TIER", "quick"), choices=["quick", "thorough"])
    ap.add_argument("--replay")
    ap.add_argument("--keep", action="store_true")
    ap.add_argument("--only", help="comma list of harness ids (debug)")
    ap.add_argument("--no-verus", action="store_true")
    ap.add_argument("--no-kani", action="store_true")
    a = ap.parse_args(argv)
    prop = a.prop
    seed = int(os.environ.get("VERIF_SEED", "0") or 0)
    t_start = time.time()

    if a.replay:
        return do_replay(a.replay)
    if (a.only or a.no_kani or a.no_verus or os.environ.get("VERIF_REPO")) and not os.environ.get("VERIF_EVIDENCE_DIR"):
        os.environ["VERIF_EVIDENCE_DIR"] = "/tmp/fpv-dev-evidence"

    reg = load_registry()
    sel = [h for h in reg if prop in h["props"] and (h["tier"] == "quick" or (a.tier == "thorough" and h["tier"] == "thorough"))]
    if a.only:
        only = set(a.only.split(","))
        sel = [h for h in reg if h["id"] in only]
    if a.no_kani:
        sel = []
    vunits = [] if a.no_verus else verus_engine.select_units(prop, a.tier)
    if not sel and not vunits:
        log(f"no harness or verus unit registered for {prop}")
        return 2

    findings = load_findings()
    baseline = {}
    bp = VERIF + "/contracts/baseline.json"
    if os.path.exists(bp):
        baseline = json.load(open(bp))

    inconclusive = []
    inconclusive += static_hygiene(sel)
    violations = []   # (harness_id, desc, loc, engine)
    known_hits = []
    prep_log = []
    kani_runs = []
    cross_solver = []
    results = {}
    scratch = None
    try:
        if sel:
            try:
                scratch, prep_log = prepare_scratch.prepare(os.environ.get("VERIF_SCRATCH"), None,
                                                            sorted({h["file"] for h in sel}))
            except prepare_scratch.PrepError as e:
                log(f"INCONCLUSIVE: {e}")
                return 2
            by_pkg = {}
            for h in sel:
                by_pkg.setdefault(h["pkg"], []).append(h)
            budget = 3000 if a.tier == "quick" else 4 * 3600
            for pkg, hs in by_pkg.items():
                log(f"[kani] package {pkg}: {len(hs)} harness(es)")
                r = run_kani(scratch, pkg, hs, budget, 600 if a.tier == 'quick' else 3600)
                kani_runs.append({"pkg": pkg, "cmd": " ".join(r["cmd"][:12]) + " ...", "rc": r["rc"], "wall_s": round(r["wall"], 1)})
                open(scratch + f"/kani_{pkg}.log", "w").write(r["out"])
                if os.environ.get("VERIF_LOGDIR"):
                    os.makedirs(os.environ["VERIF_LOGDIR"], exist_ok=True)
                    shutil.copy(scratch + f"/kani_{pkg}.log", os.environ["VERIF_LOGDIR"] + f"/{prop}_kani_{pkg}.log")
                if r["rc"] == -9:
                    inconclusive.append(f"kani run for {pkg} exceeded {budget}s")
                if compile_failed(r["out"]):
                    errs = [l for l in r["out"].splitlines() if l.startswith("error")][:8]
                    inconclusive.append(f"harness build failed for {pkg}: " + " | ".join(errs))
                    continue
                parsed = parse_kani(r["out"], hs)
                for h in hs:
                    pr = parsed.get(h["full"])
                    if pr is None or pr["status"] == "UNKNOWN":
                        inconclusive.append(f"no result for harness {h['id']}")
                        continue
                    results[h["id"]] = pr

            # decide
            for h in sel:
                pr = results.get(h["id"])
                if pr is None:
                    continue
                if h["expect"] == "fail":
                    ok = pr["status"] == "FAILED" and any("[NEG]" in c["desc"] for c in pr["failed_checks"])
                    if not ok:
                        inconclusive.append(f"vacuity guard {h['id']} did not fail as it must")
                    continue
                if pr["covers_total"] and pr["covers_sat"] != pr["covers_total"] and pr["status"] == "SUCCESSFUL":
                    inconclusive.append(f"{h['id']}: {pr['covers_total'] - pr['covers_sat']} cover(s) not satisfied (vacuity)")
                if pr["status"] == "SUCCESSFUL":
                    continue
                for c in pr["failed_checks"]:
                    desc, loc = c["desc"], c["loc"]
                    tags = set(TAG_RE.findall(desc))
                    if "unwinding assertion" in desc:
                        inconclusive.append(f"{h['id']}: {desc} ({loc})")
                        continue
                    if tags:
                        if prop not in tags:
                            continue  # belongs to another property
                    else:
                        # automatic check (panic, overflow, bounds, pointer): a C04 obligation
                        if prop != "C04":
                            continue
                    f = match_finding(findings, prop, h["id"], desc, loc)
                    if f:
                        known_hits.append((h["id"], desc, f))
                        continue
                    if baseline and h["id"] not in baseline.get("harnesses", {}):
                        inconclusive.append(f"{h['id']} fails but is not in the baseline of obligations that hold on the pinned tree")
                        continue
                    violations.append({"harness": h, "desc": desc, "loc": loc, "engine": "kani"})
                if pr["status"] == "FAILED" and not pr["failed_checks"]:
                    inconclusive.append(f"{h['id']}: no verdict ({pr.get('tool_failure', 'FAILED without a failed check listed')})")

        # ---------------- thorough tier: cross-solver pass
        # every SUCCESSFUL harness of the full kind is re-checked with a second SAT solver (Kissat instead of
        # CaDiCaL / MiniSat). Agreement is recorded in the evidence; a timeout of the second solver is recorded only;
        # a harness the second solver refutes is a tool disagreement -> inconclusive, never a pass.
        if a.tier == "thorough" and scratch and not a.only:
            by_pkg2 = {}
            for h in sel:
                pr = results.get(h["id"])
                if pr and pr["status"] == "SUCCESSFUL" and h["kind"] == "full" and h["expect"] != "fail":
                    by_pkg2.setdefault(h["pkg"], []).append(h)
            for pkg, hs in by_pkg2.items():
                log(f"[kani] cross-solver pass (kissat) for {pkg}: {len(hs)} harness(es)")
                r2 = run_kani(scratch, pkg, hs, 4 * 3600, 1800, extra=["--solver", "kissat"])
                kani_runs.append({"pkg": pkg, "cmd": " ".join(r2["cmd"][:12]) + " ... --solver kissat", "rc": r2["rc"], "wall_s": round(r2["wall"], 1)})
                parsed2 = parse_kani(r2["out"], hs) if not compile_failed(r2["out"]) else {}
                for h in hs:
                    p2 = parsed2.get(h["full"])
                    if p2 is None or p2["status"] == "UNKNOWN" or (p2["status"] == "FAILED" and not p2["failed_checks"]):
                        cross_solver.append({"id": h["id"], "kissat": "no verdict (timeout / memory)"})
                    elif p2["status"] == "SUCCESSFUL":
                        cross_solver.append({"id": h["id"], "kissat": "agrees", "kissat_s": p2["time"]})
                    else:
                        cross_solver.append({"id": h["id"], "kissat": "DISAGREES", "failed": [c["desc"] for c in p2["failed_checks"]][:5]})
                        inconclusive.append(f"{h['id']}: solver disagreement (CaDiCaL/MiniSat: SUCCESSFUL, Kissat: FAILED)")

        # ---------------- verus
        vres = None
        if vunits:
            vres = verus_engine.run_units(vunits, log)
            for u in vres["units"]:
                if u["status"] == "inconclusive":
                    inconclusive.append(f"verus unit {u['id']}: {u['note']}")
                elif u["status"] == "failed":
                    u["explained"] = True   # every failed obligation is a listed finding or belongs to another property
                    for fo in u["failed_obligations"]:
                        # a clause carrying property tags (`// [C07] ..`) is an obligation of those properties only
                        if fo.get("tags") and prop not in fo["tags"]:
                            u.setdefault("other_property_failures", []).append(fo["desc"])
                            continue
                        f = match_finding(findings, prop, u["id"], fo["desc"], fo["loc"])
                        if f:
                            known_hits.append((u["id"], fo["desc"], f))
                            continue
                        u["explained"] = False
                        violations.append({"harness": {"id": u["id"], "pkg": None, "full": u["id"], "file": u["file"]},
                                           "desc": fo["desc"], "loc": fo["loc"], "engine": "verus",
                                           "verus_output": fo.get("raw", "")})

        # ---------------- replay files + report lines
        printed = []
        if violations:
            os.makedirs(VERIF + f"/replays/{prop}", exist_ok=True)
            done_h = {}
            for v in violations:
                h = v["harness"]
                key = h["id"]
                if key not in done_h:
                    rp = {"property": prop, "obligation": key, "engine": v["engine"], "failed_checks": [],
                          "repo_head": git_head(), "tier": a.tier}
                    test = None
                    if v["engine"] == "kani" and scratch:
                        test, raw = concrete_playback(scratch, h)
                        rp["verifier_output"] = raw
                        rp["concrete_playback_test"] = test
                        rp["harness_file"] = "contracts/kani/" + h["file"]
                        rp["harness_full_name"] = h["full"]
                        rp["pkg"] = h["pkg"]
                        if test:
                            nr = native_replay(scratch, h, test)
                            rp["native_replay"] = nr
                    else:
                        rp["verifier_output"] = v.get("verus_output", "")
                        rp["unit_file"] = h.get("file")
                    rp["failing_input_found"] = bool(test)
                    done_h[key] = rp
                done_h[key]["failed_checks"].append({"desc": v["desc"], "loc": v["loc"]})
            for key, rp in done_h.items():
                path = VERIF + f"/replays/{prop}/{key}.json"
                json.dump(rp, open(path, "w"), indent=1)
                line = f"VIOLATION property={prop} replay={path}"
                if not rp["failing_input_found"]:
                    line += " no-failing-input-found"
                printed.append(line)
        for (hid, desc, f) in known_hits:
            print(f"KNOWN-FINDING: property={prop} {f['id']}: {f['what']} (obligation {hid}: {desc})")
        for line in printed:
            print(line)

        # ---------------- evidence
        write_evidence(prop, a.tier, seed, sel, results, vres, prep_log, kani_runs, violations, known_hits,
                       inconclusive, time.time() - t_start, cross_solver)
        for m in inconclusive:
            log("INCONCLUSIVE: " + m)
        if violations:
            return 1
        if inconclusive:
            return 2
        return 0
    finally:
        if scratch and not a.keep and not os.environ.get("VERIF_SCRATCH"):
            shutil.rmtree(scratch, ignore_errors=True)
        elif scratch:
            log(f"kept scratch {scratch}")


def git_head():
    try:
        return subprocess.run(["git", "-C", REPO, "rev-parse", "HEAD"], capture_output=True, text=True).stdout.strip()
    except Exception:
        return ""


def write_evidence(prop, tier, seed, sel, results, vres, prep_log, kani_runs, violations, known_hits, inconclusive, wall, cross_solver=None):
    obligations = 0
    discharged = 0
    harness_rows = []
    fns = set()
    bounded = []
    solver_s = 0.0
    stubs = set()
    for h in sel:
        pr = results.get(h["id"])
        if pr is None:
            continue
        if h["expect"] == "fail":
            harness_rows.append({"id": h["id"], "kind": "neg (vacuity guard, must fail)", "status": pr["status"]})
            continue
        total = pr["total"]
        ok = total - pr["failed"] - pr["undetermined"]
        # failed checks attributed to another property (by tag) are not obligations of this one
        other = 0
        for c in pr["failed_checks"]:
            tags = set(TAG_RE.findall(c["desc"]))
            if (tags and prop not in tags) or (not tags and prop != "C04"):
                other += 1
        total -= other
        peak = max([v for k, v in PEAK_RSS.items() if k.endswith(h["id"])] or [0])
        row = {"id": h["id"], "kind": h["kind"], "status": pr["status"], "checks": total, "discharged": ok, "peak_rss_mb": peak,
               "unreachable": pr["unreachable"], "cbmc_s": pr["time"], "functions": h["fns"],
               "covers": f"{pr['covers_sat']}/{pr['covers_total']}"}
        if h["kind"].startswith("bnd"):
            row["bounded"] = h.get("bound") or "see harness"
            bounded.append(h["id"])
        else:
            obligations += total
            discharged += ok
        solver_s += pr["time"]
        fns.update(h["fns"])
        stubs.update(h["stubs"])
        harness_rows.append(row)
    vrows = []
    if vres:
        for u in vres["units"]:
            vrows.append({k: u[k] for k in ("id", "status", "verified", "errors", "time_s", "functions", "dropped", "assumptions", "other_property_failures", "vacuity_guard") if k in u})
            if u["status"] in ("verified", "failed"):
                # functions whose only failures are listed findings / obligations of another property are reported
                # (known_findings_reported, other_property_failures) and not counted as obligations of this property
                obligations += u["verified"] + (0 if u.get("explained") else u["errors"])
                discharged += u["verified"]
                solver_s += u.get("time_s", 0.0)
                fns.update(u.get("functions", []))
    trusted = sorted(set(assumption_scan(sel, vres)))
    samples = []
    for h in sel[:6]:
        samples.append({"obligation": h["id"], "engine": "kani/cbmc", "functions": h["fns"], "kind": h["kind"]})
    if vres:
        for u in vres["units"][:4]:
            samples.append({"obligation": u["id"], "engine": "verus/z3", "functions": u.get("functions", [])})
    ev = {
        "property_id": prop,
        "tier": tier,
        "seed": seed,
        "level": "proof",
        "coverage": {
            "obligations": obligations,
            "discharged": discharged,
            "checker_cmd": "cargo kani -p <pkg> -Z stubbing -Z function-contracts --output-format=terse -j N --exact --harness <...>  (CBMC 6.11; CaDiCaL by default, MiniSat where the harness says #[kani::solver(minisat)]; thorough tier: second pass with --solver kissat) ; verus <unit>.rs --output-json --time (Z3)",
            "trusted_base": trusted,
            "samples": samples,
            "functions_under_contract": sorted(fns),
            "harnesses": harness_rows,
            "verus_units": vrows,
            "bounded_stand_ins_not_counted": bounded,
            "solver_time_s": round(solver_s, 1),
            "back_ends": ["kani 0.68.0 / cbmc 6.11.0 (cadical; minisat where annotated" + ("; kissat cross-check" if cross_solver else "") + ")"] + (["verus 0.2026.09.13 / z3"] if vres else []),
            "preparation_edits": prep_log,
            "kani_runs": kani_runs,
            "cross_solver_pass": cross_solver or [],
            "known_findings_reported": [{"obligation": hid, "check": d, "finding": f["id"]} for hid, d, f in known_hits],
            "inconclusive": inconclusive,
            "repo_head": git_head(),
            "explanation": "obligations = CBMC property checks (user assertions + automatic panic/overflow/bounds/pointer checks) of the "
                           "full/contract harnesses selected for this property plus Verus verification conditions (per function); "
                           "bounded (bnd*) harnesses are listed but not counted.",
        },
        "assumptions": trusted,
        "wall_s": round(wall, 1),
        "violations": len({v['harness']['id'] for v in violations}),
    }
    # dev / seeded runs (--only, VERIF_REPO, VERIF_EVIDENCE_DIR) never overwrite the committed evidence
    evdir = os.environ.get("VERIF_EVIDENCE_DIR") or (VERIF + "/evidence")
    os.makedirs(evdir, exist_ok=True)
    json.dump(ev, open(evdir + f"/{prop}.json", "w"), indent=1)


def static_hygiene(sel):
    """Kani 0.68 places a zero-initialised 8-byte `static mut` in the same allocation as the std constant
    RawVec::ZERO_CAP (DESIGN.md section 2): every `static mut` of the harness sources must therefore be a record
    whose initialiser starts with a unique `marker: 0x5EED_...` value. A violation of this rule makes the run
    inconclusive (never an alarm, never a pass)."""
    out = []
    files = {h["file"] for h in sel}
    if files:
        att = json.load(open(VERIF + "/contracts/kani/attach.json"))
        files |= set(att.get("always", []))
        for f in list(files):
            files |= set(att.get("deps", {}).get(f, []))
    markers = {}
    for f in sorted(files):
        pth = VERIF + "/contracts/kani/" + f
        if not os.path.exists(pth):
            continue
        t = open(pth).read()
        for m in re.finditer(r"^\s*(?:pub(?:\([a-z]+\))?\s+)?static\s+mut\s+(\w+)\s*:[^=]*=\s*([^;]*);", t, re.M | re.S):
            mk = re.search(r"marker:\s*(0x5EED[0-9A-Fa-f_]+)", m.group(2))
            if not mk:
                out.append(f"harness hygiene: {f}: static mut {m.group(1)} has no unique marker field")
            elif mk.group(1) in markers and markers[mk.group(1)] != (f, m.group(1)):
                out.append(f"harness hygiene: {f}: static mut {m.group(1)} reuses marker {mk.group(1)}")
            else:
                markers[mk.group(1)] = (f, m.group(1))
    return out


def assumption_scan(sel, vres):
    """Mechanical scan of the harness / unit sources used in this run for assumptions."""
    out = ["Kani/CBMC: bit-precise machine arithmetic (overflow checks on), x86-64 little-endian target, Rust MIR semantics as modelled by Kani 0.68",
           "scratch-copy preparation edits (forbid->deny lint, human-panic dropped) do not alter any function under contract"]
    files = sorted({h["file"] for h in sel} | ({"support.rs"} if sel else set()))
    for f in files:
        t = open(VERIF + "/contracts/kani/" + f).read()
        for m in re.finditer(r"kani::stub\(\s*([^,]+),", t):
            out.append(f"stub in {f}: {m.group(1).strip()} replaced by a verification stub")
        n = len(re.findall(r"kani::assume\(", t))
        if n:
            out.append(f"{f}: {n} kani::assume precondition(s) (each guarded by a cover or stated domain restriction)")
        if "unsafe" in t:
            out.append(f"{f}: unsafe in harness support (fabricated channel Sender / recorder statics)")
    if any(h["kind"].startswith("bnd") for h in sel):
        out.append("bounded stand-ins present: " + ", ".join(f"{h['id']}({h.get('bound')})" for h in sel if h["kind"].startswith("bnd")))
    if vres:
        for u in vres["units"]:
            out.extend(u.get("assumptions", []))
    return out


def do_replay(path):
    rp = json.load(open(path))
    print(json.dumps({k: rp[k] for k in rp if k not in ("verifier_output",)}, indent=1)[:4000])
    print("--- verifier output ---")
    print(rp.get("verifier_output", "")[-3000:])
    return 0


if __name__ == "__main__":
    sys.exit(main(sys.argv[1:]))
