#!/bin/bash
# usage: tools/try_seed.sh <patch.diff> <prop> [extra check args]  -- applies the patch to /repo, runs the check, reverts
patch=$1; prop=$2; shift 2
cd /verif
git -C /repo apply "$patch" || { echo "patch does not apply"; exit 3; }
trap 'git -C /repo checkout -- .' EXIT
VERIF_SCRATCH=/tmp/fpv-seed-$prop-$$ ./check $prop "$@"; rc=$?
rm -rf /tmp/fpv-seed-$prop-$$
echo "check rc=$rc"
