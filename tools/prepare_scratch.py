#!/usr/bin/env python3
"""Mechanical preparation of a scratch copy of /repo's working tree for Kani.

Edits applied (all logged, none touches a function body under contract):
  1. build-compat: `#![forbid(unused_extern_crates)]` -> `#![deny(..)]` in
     alice_protocol_reader/src/lib.rs (Kani injects an #[allow] that collides with forbid);
     drop the `human-panic` dependency and the `human_panic::setup_panic!();` statement
     (backtrace 0.3.71 does not compile under Kani's std overrides).
  2. append `#[cfg(kani)] #[path = ".../contracts/kani/<m>.rs"] mod verif_<m>;` at EOF of each
     hooked module (child modules see private items).
  3. insert `#[cfg_attr(kani, kani::requires/ensures/..)]` attribute lines above fn items
     listed in contracts/kani/attach.json (attribute text only).
"""
import json, os, re, shutil, subprocess, sys, tempfile

VERIF = os.path.dirname(os.path.dirname(os.path.abspath(__file__)))
REPO = os.environ.get("VERIF_REPO", "/repo")


class PrepError(Exception):
    pass


def prepare(dest=None, log=None, only_modules=None):
    log = log if log is not None else []
    if dest is None:
        dest = tempfile.mkdtemp(prefix="fpv-", dir=os.environ.get("VERIF_TMP", tempfile.gettempdir()))
    src = dest + "/src"
    os.makedirs(src, exist_ok=True)
    subprocess.run(["rsync", "-a", "--delete", "--exclude", "/target", "--exclude", "/.git",
                    REPO + "/", src + "/"], check=True)
    # 1. build compat
    p = src + "/alice_protocol_reader/src/lib.rs"
    t = open(p).read()
    if "#![forbid(unused_extern_crates)]" in t:
        t = t.replace("#![forbid(unused_extern_crates)]", "#![deny(unused_extern_crates)]")
        open(p, "w").write(t)
        log.append("compat: alice_protocol_reader/src/lib.rs forbid(unused_extern_crates) -> deny")
    p = src + "/fastpasta/Cargo.toml"
    t = open(p).read()
    t2 = re.sub(r'(?m)^human-panic\s*=.*\n', '', t)
    if t2 != t:
        open(p, "w").write(t2)
        log.append("compat: fastpasta/Cargo.toml drop dependency human-panic")
    p = src + "/fastpasta/src/init.rs"
    t = open(p).read()
    t2 = re.sub(r'(?m)^\s*human_panic::setup_panic!\(\);\s*\n', '', t)
    if t2 != t:
        open(p, "w").write(t2)
        log.append("compat: fastpasta/src/init.rs drop statement human_panic::setup_panic!();")
    # crate-level feature gate for harness stubs whose signature must name the (unstable) Allocator trait
    # (a stub of Vec::<T, A>::retain needs the same generic parameters as the original): attribute only, under cfg(kani)
    p = src + "/fastpasta/src/lib.rs"
    t = open(p).read()
    if "feature(allocator_api)" not in t:
        open(p, "w").write("#![cfg_attr(kani, feature(allocator_api))]\n" + t)
        log.append("compat: fastpasta/src/lib.rs prepend #![cfg_attr(kani, feature(allocator_api))]")
    # 2/3. attach
    att = json.load(open(VERIF + "/contracts/kani/attach.json"))
    wanted = None
    if only_modules is not None:
        # attach only the harness modules needed by this run (closed under declared dependencies), so that
        # a module that no longer compiles against a changed /repo affects only the properties that use it
        wanted = set(att.get("always", [])) | set(only_modules)
        changed = True
        while changed:
            changed = False
            for m in list(wanted):
                for d in att.get("deps", {}).get(m, []):
                    if d not in wanted:
                        wanted.add(d)
                        changed = True
    for rel, mods in att["modules"].items():
        if wanted is not None:
            mods = [m for m in mods if m in wanted]
            if not mods:
                continue
        p = src + "/" + rel
        if not os.path.exists(p):
            raise PrepError(f"lost anchor: module file {rel} does not exist")
        with open(p, "a") as f:
            for m in mods:
                name = "verif_" + os.path.splitext(os.path.basename(m))[0]
                vis = "pub(crate) "
                f.write(f'\n#[cfg(kani)]\n#[path = "{VERIF}/contracts/kani/{m}"]\n{vis}mod {name};\n')
                log.append(f"attach: {rel} += mod {name} ({m})")
    for ent in att.get("attributes", []):
        p = src + "/" + ent["file"]
        t = open(p).read()
        anchor = ent["anchor"]
        n = t.count(anchor)
        if n != 1:
            raise PrepError(f"lost anchor: {ent['file']}: `{anchor}` found {n} times")
        idx = t.index(anchor)
        ls = t.rfind("\n", 0, idx) + 1
        indent = re.match(r'\s*', t[ls:idx]).group(0)
        attrs = "".join(f"{indent}#[cfg_attr(kani, {a})]\n" for a in ent["attrs"])
        t = t[:ls] + attrs + t[ls:]
        open(p, "w").write(t)
        log.append(f"contract: {ent['file']}: {len(ent['attrs'])} attribute(s) above `{anchor}`")
    # kani crate features for loop contracts etc. are not used.
    os.makedirs(src + "/.cargo", exist_ok=True)
    with open(src + "/.cargo/config.toml", "a") as f:
        f.write('\n[net]\noffline = true\n')
    return dest, log


if __name__ == "__main__":
    d, log = prepare(sys.argv[1] if len(sys.argv) > 1 else None)
    print(d)
    for l in log:
        print("  " + l)
