#!/usr/bin/env python3
"""import_seed.py <ID> <name> <property> "<needs>" "<caught_by or MISSED: reason>"  : copy a confirmed seed from /tmp/seed-<ID> to /verif/seeded/<name>/"""
import json, os, shutil, sys, glob
sid, name, prop, needs, caught = sys.argv[1:6]
src = f"/tmp/seed-{sid}"
dst = f"/verif/seeded/{name}"
os.makedirs(dst, exist_ok=True)
for f in glob.glob(src + "/*"):
    b = os.path.basename(f)
    if os.path.isdir(f):
        shutil.copytree(f, dst + "/" + b, dirs_exist_ok=True)
        continue
    if b.endswith(".log") and b not in ("confirm.log",):
        continue
    if os.path.getsize(f) > 300000:
        continue
    shutil.copy(f, dst)
conf = open(src + "/confirm.log").read() if os.path.exists(src + "/confirm.log") else ""
meta = {
    "property": prop,
    "origin": "independent sub-agent given only the property text and a scratch worktree",
    "needs_to_manifest": needs,
    "confirmed": {
        "patch_applies": "APPLY_FAILED" not in conf,
        "suite_passes_with_patch": "suite_failed_lines=0" in conf,
        "demo_fails_with_patch": "demo_with_rc=0" not in conf and "demo_with_rc=" in conf,
        "demo_passes_without_patch": "demo_without_rc=0" in conf,
        "how": "tools/confirm_seed.sh in a scratch worktree: git apply patch.diff; cargo test --workspace --no-fail-fast --offline; bash demo.sh (with patch, then without)",
    },
    "checks": caught,
}
json.dump(meta, open(dst + "/meta.json", "w"), indent=1)
print(dst, meta["confirmed"])
