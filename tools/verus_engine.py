#!/usr/bin/env python3
"""Engine V: Verus on functions extracted mechanically from /repo on every run, plus lemmas.

contracts/verus/units.json:
  [{ "id": ..., "props": [...], "tier": "quick", "template": "<file>.rs",
     "functions": ["Type::f", ...],
     "extract": [ {"key": "K", "file": "<repo-relative>", "anchor": "<exact text starting the item>",
                   "kind": "fn"|"item", "contract": "<requires/ensures text inserted before the body>",
                   "ret": "<optional replacement of the `-> T` return clause, to name the result>"} ],
     "assumptions": [...] }]
The template contains lines `//@EXTRACT K` that are replaced by the extracted item.

Fixed rewrite rules applied to extracted text (nothing else is ever changed; a function that needs
more is not extracted):
  - visibility `pub`, `pub(crate)`, `pub(super)` dropped
  - attributes `#[inline]`, `#[inline(always)]`, `#[allow(..)]`, `#[derive(..)]`, `#[repr(packed)]` dropped
  - doc comments `///` and line comments `//` dropped
  - `debug_assert!(..);` and `log::<level>!(..);` statements dropped
"""
import json, os, re, subprocess, tempfile, time, shutil

VERIF = os.path.dirname(os.path.dirname(os.path.abspath(__file__)))
REPO = os.environ.get("VERIF_REPO", "/repo")

DROPPED = ["visibility qualifiers (pub, pub(crate), pub(super))",
           "attributes #[inline], #[allow(..)], #[derive(..)], #[repr(packed)], #[must_use]",
           "doc comments and line comments",
           "debug_assert!(..) / debug_assert_eq!(..) / debug_assert_ne!(..) and log::*!(..) statements",
           "display-only statements `<v>.iter().for_each(|e| { crate::display_error(e); });`",
           "module-level `const` items of the source file that the extracted code refers to and the unit does not define are extracted with it",
           "where a unit says or_guard_rule: a match arm `A | B if g => { body }` is written as the two arms `A if g => { body }` and `B if g => { body }`",
           "where a unit says lit_rule: a string literal turned into a String (`\"X\".to_string()`, `String::from(\"X\")`, with colour calls in between) becomes `lit(<hash of X>)`; contracts name the label as @LIT(X)@",
           "where a unit says loops: loop invariants are attached to the n-th loop header of the item (by position, the header text is the code's); anchor_re: the start of an item given as a regular expression",
           "a statement `if COND { continue; }` directly in a loop body becomes `if COND { } else { <rest of the body> }` (Verus takes no `continue` in a `for`)",
           "where a unit says inline: the statement `self.<helper>(args);` is replaced by `{ let (params) = (args); <helper body> }`, parameters as the code declares them",
           "where a unit says pub_fields: every field of an extracted struct is made `pub`",
           "where a unit says foreach_rule: a statement `<it>.for_each(|<pat>| { <body> });` is rewritten to `for <pat> in <it> { <body> }` (the definition of Iterator::for_each; Verus takes no closure capturing `&mut` state)",
           "where a unit says closure_contracts: the parameter list of a named closure is replaced by an annotated one (types, named result, requires/ensures) and its body, untouched, is wrapped in braces (Verus does not infer closure postconditions)",
           "where a unit says msg_rule: message-text expressions (`format!(..)`, `\"literal\".into()`) are replaced by an opaque opaque_msg()"]


class ExtractError(Exception):
    pass


def units():
    p = VERIF + "/contracts/verus/units.json"
    if not os.path.exists(p):
        return []
    return json.load(open(p))


def unit_props(u):
    """declared props plus every property a clause of the unit is tagged with (`// [C07] ..` in the template, the
    contracts, the inserted annotations): a tagged clause of a unit that is never run for that property would be dead"""
    txt = ""
    tp = VERIF + "/contracts/verus/" + u["template"]
    if os.path.exists(tp):
        txt += open(tp).read()
    txt += json.dumps(u.get("extract", []))
    return sorted(set(u["props"]) | set(re.findall(r"\[(C\d{2})\]", txt)))


def select_units(prop, tier):
    return [u for u in units() if prop in unit_props(u) and (tier == "thorough" or u.get("tier", "quick") == "quick")]


def match_brace(text, start):
    """index just after the brace block that starts at the first '{' at/after start"""
    i = text.index("{", start)
    depth = 0
    n = len(text)
    in_str = False
    while i < n:
        c = text[i]
        if in_str:
            if c == "\\":
                i += 2
                continue
            if c == '"':
                in_str = False
        else:
            if c == '"':
                in_str = True
            elif c == "/" and text[i:i + 2] == "//":
                i = text.index("\n", i)
                continue
            elif c == "'" and re.match(r"'(\\.|[^\\'])'", text[i:i + 4]):
                i += len(re.match(r"'(\\.|[^\\'])'", text[i:i + 4]).group(0))
                continue
            elif c == "{":
                depth += 1
            elif c == "}":
                depth -= 1
                if depth == 0:
                    return i + 1
        i += 1
    raise ExtractError("unbalanced braces")


def rewrite(txt, keep_pub=False):
    txt = re.sub(r"(?m)^\s*///.*\n", "", txt)
    txt = re.sub(r"(?m)^\s*//(?!@).*\n", "", txt)
    txt = re.sub(r"(?m)[ \t]+//(?!@).*$", "", txt)
    txt = re.sub(r"(?m)^\s*#\[(inline(\(always\))?|allow\([^\]]*\)|derive\([^\]]*\)|repr\(packed\)|must_use)\]\s*\n", "", txt)
    if not keep_pub:
        txt = re.sub(r"\bpub(\((crate|super)\))?\s+", "", txt)
    txt = re.sub(r"(?s)\bdebug_assert(?:_eq|_ne)?!\s*\((?:[^()]|\((?:[^()]|\([^()]*\))*\))*\)\s*;", "", txt)
    # display-only statement: `<v>.iter().for_each(|e| { crate::display_error(e); });`
    txt = re.sub(r"(?s)\b\w+\.iter\(\)\.for_each\(\|(\w+)\|\s*\{\s*crate::display_error\(\1\);\s*\}\);", "", txt)
    txt = re.sub(r"(?s)\blog::(trace|debug|info|warn|error)!\s*\((?:[^()]|\((?:[^()]|\([^()]*\))*\))*\)\s*;", "", txt)
    # a logging call as the (unit-valued) tail expression of a block: `{ log::info!(..) }` -> `{ }`
    txt = re.sub(r"(?s)\blog::(trace|debug|info|warn|error)!\s*\((?:[^()]|\((?:[^()]|\([^()]*\))*\))*\)(?=\s*\})", "", txt)
    return txt


def foreach_rule(txt):
    """`<recv>.for_each(|<pat>| { <body> });` as a statement -> `for <pat> in <recv> { <body> }`.
    `Iterator::for_each` is by definition the loop calling the closure on each item in order (core docs), so this is a
    desugaring; it is needed because Verus takes neither closures that capture `&mut` state nor closure parameter
    patterns. Only calls in statement position or as the value of a match arm, whose closure body is a block, are rewritten; anything else is left alone
    (and then fails as unsupported -> inconclusive)."""
    out = txt
    pos = 0
    while True:
        k = out.find(".for_each(|", pos)
        if k < 0:
            return out
        # receiver: from the start of the statement (after the previous `;`, `{` or `}`) to k
        j = k
        depth = 0
        while j > 0:
            c = out[j - 1]
            if c in ")]":
                depth += 1
            elif c in "([":
                depth -= 1
            elif depth == 0 and c in ";{}":
                break
            j -= 1
        arm = False
        if "=>" in out[j:k]:
            # value of a match arm: `PAT => <recv>.for_each(..),` -> `PAT => { for .. }`
            j = j + out[j:k].rindex("=>") + 2
            arm = True
        recv = out[j:k].strip()
        p0 = k + len(".for_each(|")
        p1 = out.index("|", p0)
        pat = out[p0:p1].strip()
        b0 = p1 + 1
        while out[b0].isspace():
            b0 += 1
        if out[b0] != "{" or not recv:
            pos = k + 1
            continue
        b1 = match_brace(out, b0)
        m = re.match(r"\s*\)\s*;?", out[b1:])
        if not m:
            pos = k + 1
            continue
        lead = out[j:k][: len(out[j:k]) - len(out[j:k].lstrip())]
        loop = "for " + pat + " in " + recv + "\n" + out[b0:b1]
        if arm:
            loop = "{ " + loop + " }"
        out = out[:j] + lead + loop + out[b1 + m.end():]
        pos = j + 1


def closure_contracts(txt, specs, key):
    """Verus does not infer what a closure returns: where a closure's result matters its contract must be written in the
    closure header. Each spec {"at": "<text ending in the closure's parameter list, e.g. `.sort_unstable_by(|a, b|`>",
    "header": "<annotated parameter list and clauses>"} replaces the parameter list by the annotated one and wraps the
    closure body - whatever it is, found by delimiter matching - in braces. The body text is never touched."""
    out = txt
    for sp in specs:
        at = sp["at"]
        if sp.get("optional") and out.count(at) == 0:
            continue   # the closure is gone from the code: nothing to annotate, the function is checked as it is
        if out.count(at) != 1:
            raise ExtractError(f"lost anchor for closure contract: `{at}` in {key}")
        k = out.index(at)
        # start of the parameter list: the `|` that opens it
        plist = sp.get("params") or at[at.index("|"):]
        p0 = k + len(at) - len(plist)
        b0 = k + len(at)
        # an explicit return type written in the code is dropped in favour of the annotated header
        m = re.match(r"\s*->\s*[^{]+", out[b0:])
        if m:
            b0 += m.end()
        while out[b0].isspace():
            b0 += 1
        if out[b0] == "{":
            b1 = match_brace(out, b0)
            body = out[b0:b1]
        else:
            depth = 0
            i = b0
            in_str = False
            while i < len(out):
                c = out[i]
                if in_str:
                    if c == "\\":
                        i += 2
                        continue
                    if c == '"':
                        in_str = False
                elif c == '"':
                    in_str = True
                elif c in "([{":
                    depth += 1
                elif c in ")]}":
                    if depth == 0:
                        break
                    depth -= 1
                elif c in ",;" and depth == 0:
                    break
                i += 1
            b1 = i
            body = "{ " + out[b0:b1].rstrip() + " }"
        if sp.get("prelude"):
            # bindings that the replaced parameter pattern introduced (e.g. `|(l, s)|` -> `|p| { let (l, s) = ..; body }`)
            body = "{ " + sp["prelude"] + " " + body + " }"
        out = out[:p0] + sp["header"] + "\n" + body + out[b1:]
    return out


def or_guard_rule(txt):
    """Verus takes no match arm that has both an or-pattern and a guard: `A | B if g => { body }` is written as the two
    arms `A if g => { body } B if g => { body }` (same meaning: the guard applies to either alternative, the body is
    duplicated verbatim). Only the shape `(tuple pattern) | (tuple pattern)` + guard + block body is handled."""
    out = txt
    pos = 0
    while True:
        m = re.compile(r"(\([^\n|]*\))\s*\|\s*(\([^\n|]*\))\s*if\s+([^\n]*?)\s*=>\s*\{").search(out, pos)
        if not m:
            return out
        b0 = m.end() - 1
        b1 = match_brace(out, b0)
        body = out[b0:b1]
        new = f"{m.group(1)} if {m.group(3)} => {body}\n        {m.group(2)} if {m.group(3)} => {body}"
        out = out[:m.start()] + new + out[b1:]
        pos = m.start() + len(new)


def _lit_hash(text):
    import hashlib
    return "0x" + hashlib.sha1(text.encode()).hexdigest()[:12] + "u64"


def lit_rule(txt):
    """String literals that are turned into a `String` (`"X".to_string()`, `"X".green().to_string()`, `String::from("X")`)
    become `lit(<hash of X>)`: the text is kept as an identity (two different labels stay different, the same label the
    same), so that a contract can say which label a value is shown under; contracts name a label as @LIT(X)@."""
    def rep(m):
        return "lit(" + _lit_hash(m.group(1)) + ")"
    txt = re.sub(r'String::from\(\s*"((?:[^"\\\\]|\\\\.)*)"\s*\)', rep, txt)
    txt = re.sub(r'"((?:[^"\\\\]|\\\\.)*)"(?=\s*\.\s*(?:to_string|to_owned|green|red|yellow|into)\b)', rep, txt)
    # std's blanket `ToString::to_string` cannot be given a specification: the call is renamed to the stand-ins' `to_text`
    txt = txt.replace(".to_string()", ".to_text()")
    return txt


def _loop_headers(item):
    """[(start, brace_pos)] of `for` / `while` / `loop` headers in the item, in order of appearance (outside strings and comments)"""
    out = []
    for m in re.finditer(r"(?<![\w.])(for|while|loop)\b", item):
        # skip keywords inside string literals (crude: an odd number of quotes before it on the line)
        ls = item.rfind("\n", 0, m.start()) + 1
        if item[ls:m.start()].count('"') % 2 == 1 or "//" in item[ls:m.start()]:
            continue
        depth = 0
        i = m.end()
        while i < len(item):
            c = item[i]
            if c in "([":
                depth += 1
            elif c in ")]":
                depth -= 1
            elif c == "{" and depth == 0:
                out.append((m.start(), i))
                break
            elif c == ";" and depth == 0:
                break
            i += 1
    return out


def annotate_loops(item, specs, key):
    """Loop annotations located by position, not by text: {"loop": n, "name": "it", "text": "<invariant ...>"} attaches the
    text to the n-th loop header of the item (1-based, in order of appearance), optionally naming a `for` loop's iterator
    (`for p in e` -> `for p in it: e`); the header itself - condition, iterated expression - is the code's."""
    for sp in sorted(specs, key=lambda x: -x["loop"]):
        hs = _loop_headers(item)
        if sp["loop"] > len(hs):
            raise ExtractError(f"lost anchor for annotation: loop #{sp['loop']} in {key} (the item has {len(hs)} loops)")
        st, br = hs[sp["loop"] - 1]
        header = item[st:br].rstrip()
        if sp.get("name") and header.startswith("for"):
            m = re.match(r"for\s+(.+?)\s+in\s+", header, re.S)
            if m:
                header = header[:m.end()] + sp["name"] + ": " + header[m.end():]
        tail = item[br:]
        if sp.get("after"):
            # proof steps placed right after the loop (behind its closing brace), located by position
            be = match_brace(tail, 0)
            tail = tail[:be] + "\n" + sp["after"] + "\n" + tail[be:]
        if sp.get("body_suffix"):
            # proof steps placed at the very end of the loop body (before its closing brace)
            be = match_brace(tail, 0)
            tail = tail[:be - 1] + "\n" + sp["body_suffix"] + "\n" + tail[be - 1:]
        if sp.get("body_prefix"):
            # ghost bindings / proof hints placed at the very start of the loop body (located by position as well)
            tail = "{\n" + sp["body_prefix"] + "\n" + tail[1:]
        item = item[:st] + header + "\n" + sp["text"] + "\n" + tail
    return item


def continue_rule(txt):
    """Verus takes no `continue` in a `for` loop. The common shape - a statement `if COND { continue; }` directly in a loop body -
    is rewritten to `if COND { } else { <rest of the loop body> }` (same meaning: the rest of the iteration is skipped exactly
    when COND holds). Any other use of `continue` is left alone (and is then unsupported -> inconclusive)."""
    out = txt
    pos = 0
    while True:
        k = out.find("continue;", pos)
        if k < 0:
            return out
        # the block `{ continue; }` around it
        b0 = out.rfind("{", 0, k)
        b1 = out.find("}", k)
        if b0 < 0 or b1 < 0 or out[b0 + 1:b1].strip() != "continue;":
            pos = k + 1
            continue
        # the `if COND` before it: back to the previous statement boundary
        j = b0
        depth = 0
        while j > 0:
            c = out[j - 1]
            if c in ")]":
                depth += 1
            elif c in "([":
                depth -= 1
            elif depth == 0 and c in ";{}":
                break
            j -= 1
        head = out[j:b0]
        if not head.strip().startswith("if ") or re.match(r"\s*else\b", out[b1 + 1:]):
            pos = k + 1
            continue
        # the rest of the enclosing block
        i = b1 + 1
        depth = 0
        in_str = False
        while i < len(out):
            c = out[i]
            if in_str:
                if c == "\\":
                    i += 2
                    continue
                if c == '"':
                    in_str = False
            elif c == '"':
                in_str = True
            elif c == "{":
                depth += 1
            elif c == "}":
                if depth == 0:
                    break
                depth -= 1
            i += 1
        rest = out[b1 + 1:i]
        out = out[:b0] + "{ } else {" + rest + "}\n" + out[i:]
        pos = b0 + 1


def inline_calls(item, specs, key):
    """Inline a private helper at its call site: the statement `self.<callee>(a1, .., an);` becomes
    `{ let (p1, .., pn) = (a1, .., an); <callee body> }` with p1..pn the callee's parameter names as the code declares them
    (a `&mut` parameter bound to a plain identifier is re-borrowed). The callee's text goes through the same rewrite rules
    as the caller's; it must not `return` a value. The point: the helper is checked as the code it is, through the caller's
    contract, whatever its parameter list looks like after a change - no separate contract that a signature change breaks."""
    out = item
    for sp in specs:
        e2 = {"key": key + ":" + sp["callee"], "file": sp["file"], "anchor": sp["anchor"], "kind": "item"}
        for k in ("msg_rule", "lit_rule", "row_rule", "foreach_rule"):
            if sp.get(k):
                e2[k] = sp[k]
        ctext = extract_item(e2)
        sig, body = split_sig(ctext)
        m = re.search(r"fn\s+" + re.escape(sp["callee"]) + r"\s*(?:<[^>]*>)?\s*\(", sig)
        if not m:
            raise ExtractError(f"lost anchor: callee {sp['callee']} in {key}")
        pe = _match_paren(sig, m.end() - 1) - 1
        params = [p.strip() for p in _split_top(sig[m.end():pe]) if p.strip()]
        params = [p for p in params if not re.match(r"&?\s*(mut\s+)?self\b", p)]
        names = [p.split(":", 1)[0].strip() for p in params]
        types = [p.split(":", 1)[1].strip() for p in params]
        call = "self." + sp["callee"] + "("
        if out.count(call) != 1:
            raise ExtractError(f"lost anchor: call of {sp['callee']} in {key} (found {out.count(call)})")
        k = out.index(call)
        ae = _match_paren(out, k + len(call) - 1) - 1
        args = [a.strip() for a in _split_top(out[k + len(call):ae]) if a.strip()]
        if len(args) != len(names):
            raise ExtractError(f"call of {sp['callee']} in {key}: {len(args)} arguments for {len(names)} parameters")
        rb = set(sp.get("reborrow_mut", []))
        args = [("&mut *" + a) if (a in rb or (t.startswith("&mut") and re.fullmatch(r"\w+", a))) else a for a, t in zip(args, types)]
        end = ae + 1
        if out[end:end + 1] == ";":
            end += 1
        b0 = body.index("{")
        inner = body[b0 + 1:body.rindex("}")]
        repl = "{ let (" + ", ".join(names) + ") = (" + ", ".join(args) + ");\n// ---- inlined body of " + sp["callee"] + "\n" + inner + "\n}"
        out = out[:k] + repl + out[end:]
    return out


def _match_paren(text, i):
    depth = 0
    in_str = False
    while i < len(text):
        c = text[i]
        if in_str:
            if c == "\\":
                i += 2
                continue
            if c == '"':
                in_str = False
        elif c == '"':
            in_str = True
        elif c in "([{":
            depth += 1
        elif c in ")]}":
            depth -= 1
            if depth == 0:
                return i + 1
        i += 1
    raise ExtractError("unbalanced parens")


HEX_PREFIX_RE = re.compile(r'^(?:\\\n\s*)?\{[A-Za-z_0-9]*:#X\}: ')


def _fmt_shape(args_txt):
    """shape of a `format!` call from its literal: True iff the rendered text starts with `{<arg>:#X}: `, i.e.
    with `0x<UPPERCASE HEX>: ` - the form the error sorter's regex `^0x(?<mem_pos>[0-9A-F]+)` parses"""
    m = re.match(r'\s*"((?:[^"\\]|\\.)*)"', args_txt, re.S)
    if not m:
        return False
    return bool(HEX_PREFIX_RE.match(m.group(1)))


def _split_top(args_txt):
    """split a macro argument list at top-level commas (string literals, brackets and parentheses respected)"""
    parts, depth, cur, i, n = [], 0, [], 0, len(args_txt)
    while i < n:
        c = args_txt[i]
        if c == '"':
            j = i + 1
            while j < n and args_txt[j] != '"':
                j += 2 if args_txt[j] == "\\" else 1
            cur.append(args_txt[i:j + 1])
            i = j + 1
            continue
        if c == "<" and args_txt[max(0, i - 2):i] == "::":
            # turbofish `::<..>`: its commas do not separate arguments
            j = args_txt.index(">", i)
            cur.append(args_txt[i:j + 1])
            i = j + 1
            continue
        if c in "([{":
            depth += 1
        elif c in ")]}":
            depth -= 1
        if c == "," and depth == 0:
            parts.append("".join(cur))
            cur = []
        else:
            cur.append(c)
        i += 1
    if "".join(cur).strip():
        parts.append("".join(cur))
    return [p.strip() for p in parts]


def _fmt_lead_expr(args_txt):
    """the expression rendered by the leading `{..:#X}` directive of a format! call: a named argument
    (`name = expr`), a captured identifier, or the first positional argument; None if there is no such directive"""
    parts = _split_top(args_txt)
    if not parts:
        return None
    m = re.match(r'^"(?:\\\n\s*)?\{([A-Za-z_0-9]*):#[Xx]\}', parts[0], re.S)
    if not m:
        return None
    name = m.group(1)
    rest = parts[1:]
    if name == "" or name.isdigit():
        pos = [a for a in rest if not re.match(r"^[A-Za-z_][A-Za-z_0-9]*\s*=[^=]", a)]
        k = int(name) if name else 0
        return pos[k] if k < len(pos) else None
    for a in rest:
        mm = re.match(r"^" + re.escape(name) + r"\s*=\s*(.*)$", a, re.S)
        if mm:
            return mm.group(1).strip()
    return name


def _fmt_code_expr(args_txt):
    """the error code a message carries right after its leading offset (`{..:#X}: [<code>] ..`): a literal `E<digits>` becomes
    `code_lit(<digits>)`, a `{name}` directive becomes the expression it renders (named argument or captured identifier);
    None if the literal does not have that form"""
    parts = _split_top(args_txt)
    if not parts:
        return None
    m = re.match(r'^"(?:\\\n\s*)?\{[A-Za-z_0-9]*:#[Xx]\}:\s*\[(?:\{([A-Za-z_][A-Za-z_0-9]*)\}|E(\d+))\]', parts[0], re.S)
    if not m:
        return None
    if m.group(2):
        return f"code_lit({m.group(2)})"
    name = m.group(1)
    for a in parts[1:]:
        mm = re.match(r"^" + re.escape(name) + r"\s*=(?!=)\s*(.*)$", a, re.S)
        if mm:
            return mm.group(1).strip()
    return name


def msg_rule(txt, shaped=False):
    """message-text expressions are replaced by the opaque msg(): `format!(..)` and `"literal".into()`.
    With `"msg_rule": "at"` the expression rendered by the leading `{..:#X}` directive is kept as well:
    `opaque_msg_at(flag, <expr>)`.
    With `"msg_rule": "at_code"` the error code written right after that offset (`{..:#X}: [E701] ..` or `{..:#X}: [{err_code}] ..`)
    is kept too: `opaque_msg_code(flag, <expr>, <code>)`, and error-code literals `"E<n>"` elsewhere in the text become `code_lit(<n>)`.
    With shaped=True (`"msg_rule": "shaped"`), `format!("<lit>", ..)` becomes `opaque_msg_shaped(true|false)`:
    the flag says whether the literal starts with an upper-case hexadecimal offset directive (see _fmt_shape);
    literal messages (`"..".into()`, `"..".to_string()`) become opaque_msg_shaped(false)."""
    out = []
    i = 0
    while True:
        m = re.search(r"\bformat!\s*\(", txt[i:])
        if not m:
            out.append(txt[i:])
            break
        s = i + m.start()
        e = _match_paren(txt, i + m.end() - 1)
        out.append(txt[i:s])
        if shaped in ("at", "at_bytes", "at_code"):
            a = txt[i + m.end():e - 1]
            lead = _fmt_lead_expr(a)
            flag = "true" if _fmt_shape(a) else "false"
            code = _fmt_code_expr(a) if shaped == "at_code" else None
            if code and lead:
                # additionally keep the error code written right after the offset: `{..:#X}: [<code>]`
                out.append(f"opaque_msg_code({flag}, {lead}, {code})")
                i = e
                m2 = re.match(r"\s*\.into\(\)", txt[i:])
                if m2:
                    i += m2.end()
                continue
            if shaped == "at_bytes" and lead:
                # additionally keep the positional arguments (in order) as an array: the bytes a message quotes
                parts = _split_top(a)[1:]
                pos = [x for x in parts if not re.match(r"^[A-Za-z_][A-Za-z_0-9]*\s*=[^=]", x)]
                out.append(f"opaque_msg_bytes({flag}, {lead}, [" + ", ".join(pos) + "])")
            else:
                out.append(f"opaque_msg_at({flag}, {lead})" if lead else f"opaque_msg_shaped({flag})")
        elif shaped:
            out.append("opaque_msg_shaped(%s)" % ("true" if _fmt_shape(txt[i + m.end():e - 1]) else "false"))
        else:
            out.append("opaque_msg()")
        i = e
        m2 = re.match(r"\s*\.into\(\)", txt[i:])  # format!(..).into()
        if m2:
            i += m2.end()
    txt = "".join(out)
    if shaped == "at_code":
        # error-code literals outside the message text (`let err_code = if is_ib { "E72" } else { "E73" };`)
        txt = re.sub(r'"E(\d+)"', r"code_lit(\1)", txt)
    lit = "opaque_msg_shaped(false)" if shaped else "opaque_msg()"
    txt = re.sub(r'"(?:[^"\\]|\\.)*"\s*\.into\(\)', lit, txt)
    if shaped:
        txt = re.sub(r'"(?:[^"\\]|\\.)*"\s*\.to_string\(\)', lit, txt)
    return txt


ROW_LABELS = {"DATA": 0, "TDH": 1, "TDT": 2, "IHW": 3, "DDW": 4, "CDW": 5}


def _strip_to_string(expr):
    """a value rendered through `.to_string()` shows the same content as the value itself"""
    return re.sub(r"\.to_string\(\)\s*$", "", expr.strip())


def _row_tokens(lit, all_args):
    """ordered content of one format literal: label words, captured identifiers, named and positional arguments"""
    named = {}
    pos_args = []
    for a in all_args:
        mm = re.match(r"^([A-Za-z_][A-Za-z_0-9]*)\s*=(?!=)\s*(.*)$", a, re.S)
        if mm:
            named[mm.group(1)] = mm.group(2).strip()
        else:
            pos_args.append(a)
    out = []
    k = 0
    i = 0
    for m in re.finditer(r"\{([^{}]*)\}", lit):
        for w in re.findall(r"\b(DATA|TDH|TDT|IHW|DDW|CDW)\b", lit[i:m.start()]):
            out.append(f"&tok_label({ROW_LABELS[w]})")
        i = m.end()
        name = m.group(1).split(":")[0].strip()
        if name == "" or name.isdigit():
            idx = int(name) if name else k
            if name == "":
                k += 1
            out.append(f"&({_strip_to_string(pos_args[idx])})" if idx < len(pos_args) else "&tok_missing()")
        elif name in named:
            out.append(f"&({_strip_to_string(named[name])})")
        else:
            out.append(f"&{name}")
    for w in re.findall(r"\b(DATA|TDH|TDT|IHW|DDW|CDW)\b", lit[i:]):
        out.append(f"&tok_label({ROW_LABELS[w]})")
    expr = "tok_nil()"
    for t in reversed(out):
        expr = f"tok_cons({t}, {expr})"
    return expr


def row_rule(txt):
    """row-content rule (unit v_rows): every `format!` / `format_args!` / `writeln!(w, ..)` is replaced by the ordered list
    of what it renders - the word-type label found in the literal (DATA/TDH/TDT/IHW/DDW/CDW), the identifiers captured
    in the literal and the positional arguments, in the order of the literal - as nested `tok_cons(&x, ..)` calls;
    `writeln!(w, ..)` / `write!(w, ..)` become `emit_row(w, <list>)`; a trailing `.to_string()` on an argument is dropped.
    Column widths, spacing and the rest of the literal are dropped."""
    while True:
        ms = list(re.finditer(r"\b(format_args|format|writeln|write)!\s*\(", txt))
        if not ms:
            return txt
        # innermost first: the last macro start has no macro inside it
        m = ms[-1]
        e = _match_paren(txt, m.end() - 1)
        args = _split_top(txt[m.end():e - 1])
        args = [a for a in args if a != ""]
        if m.group(1) in ("writeln", "write"):
            w, lit, rest = args[0], args[1], args[2:]
        else:
            w, lit, rest = None, args[0], args[1:]
        lm = re.match(r'^"((?:[^"\\]|\\.)*)"$', lit, re.S)
        body = _row_tokens(lm.group(1) if lm else "", rest)
        rep = f"emit_row({w}, {body})" if w else body
        txt = txt[:m.start()] + rep + txt[e:]


def expand_validate_fields(e):
    """Mechanical macro_rules expansion of `validate_fields!(Struct, f1, f2, ..)` using the macro text
    found in /repo (single arm `($struct_name:ident, $($field:ident),*) => { BODY }`)."""
    mp = REPO + "/" + e["macro_file"]
    mt = open(mp).read()
    k = mt.index("macro_rules! validate_fields")
    arm = mt.index("=>", k)
    body_end = match_brace(mt, arm)
    body = mt[mt.index("{", arm) + 1:body_end - 1]
    p = REPO + "/" + e["file"]
    t = open(p).read()
    m = re.search(r"validate_fields!\(\s*" + re.escape(e["struct"]) + r"\s*,([^)]*)\)", t)
    if not m:
        raise ExtractError(f"lost anchor: validate_fields!({e['struct']}, ..) in {e['file']}")
    fields = [f.strip() for f in m.group(1).split(",") if f.strip()]
    rs = body.index("$(")
    depth = 0
    i = rs + 1
    while True:
        c = body[i]
        if c == "(":
            depth += 1
        elif c == ")":
            depth -= 1
            if depth == 0:
                break
        i += 1
    rep = body[rs + 2:i]
    if body[i + 1] != "*":
        raise ExtractError("unexpected macro repetition form")
    expanded = body[:rs] + "".join(rep.replace("$field", f) for f in fields) + body[i + 2:]
    expanded = expanded.replace("$struct_name", e["struct"])
    return expanded


def extract_getters(e, vac=False):
    """kind `getters`: every method `fn <name>(&self) -> <T> {..}` of the file whose name is a field of struct `struct` is
    extracted verbatim (body included) and given the contract `ensures r == self.<name>` - a getter returns the field it is
    named after. The field list is read from the struct definition in the file; every field must have its getter
    (otherwise: lost anchor)."""
    p = REPO + "/" + e["file"]
    if not os.path.exists(p):
        raise ExtractError(f"lost anchor: {e['file']} missing")
    t = open(p).read()
    anchor = "pub struct " + e["struct"] + " {"
    if t.count(anchor) != 1:
        raise ExtractError(f"lost anchor: `{anchor}` in {e['file']}")
    s0 = t.index(anchor)
    sbody = t[s0 + len(anchor) - 1:match_brace(t, s0 + len(anchor) - 1)]
    fields = re.findall(r"^\s*(?:pub(?:\([a-z]+\))?\s+)?([a-z_][a-z_0-9]*)\s*:", sbody, re.M)
    out = []
    for f in fields:
        ms = list(re.finditer(r"\bfn\s+" + re.escape(f) + r"\s*\(\s*&self\s*\)\s*->\s*([A-Za-z_0-9]+)\s*\{", t))
        if len(ms) != 1:
            raise ExtractError(f"lost anchor: getter `{f}` of {e['struct']} found {len(ms)} times in {e['file']}")
        m = ms[0]
        end = match_brace(t, m.end() - 1)
        body = rewrite(t[m.end() - 1:end])
        if vac:
            body = "{ assert(false); // @VACUITY " + e["key"] + ":" + f + "\n" + body[1:]
        out.append(f"    fn {f}(&self) -> (r: {m.group(1)})\n        ensures r == self.{f}, // [C15] the getter returns the field it is named after\n    " + body)
    return "\n".join(out)


def extract_item(e, vac=False):
    if e.get("kind") == "getters":
        return extract_getters(e, vac)
    if e.get("kind") == "macro_validate_fields":
        item = rewrite(expand_validate_fields(e))
        item = msg_rule(item)
        sig, body = split_sig(item)
        if e.get("ret"):
            m = re.search(r"->\s*([^{]+?)\s*$", sig, re.S)
            sig = sig[:m.start()] + "-> " + e["ret"] + " "
        return sig.rstrip() + "\n" + e.get("contract", "") + "\n" + body
    p = REPO + "/" + e["file"]
    if not os.path.exists(p):
        raise ExtractError(f"lost anchor: {e['file']} missing")
    t = open(p).read()
    anchor = e["anchor"]
    if e.get("anchor_re"):
        # the start of the item given as a regular expression (a loop header whose condition may change): must match once
        ms = list(re.finditer(e["anchor_re"], t))
        if len(ms) != 1:
            raise ExtractError(f"lost anchor: /{e['anchor_re']}/ found {len(ms)} times in {e['file']}")
        s = ms[0].start()
    else:
        n = t.count(anchor)
        if n != 1:
            raise ExtractError(f"lost anchor: `{anchor}` found {n} times in {e['file']}")
        s = t.index(anchor)
    if e.get("kind") == "block":
        # a statement sequence (fragment of a larger body, e.g. inside a thread closure): from the anchor up to
        # and including the end anchor, both unique
        ea = e["end_anchor"]
        if e.get("end_first"):
            # the end anchor is the first occurrence after the start anchor (e.g. the `.expect(..);` closing a statement)
            if t.find(ea, s) < 0:
                raise ExtractError(f"lost anchor: `{ea}` not found after `{anchor}` in {e['file']}")
        elif t.count(ea) != 1:
            raise ExtractError(f"lost anchor: `{ea}` found {t.count(ea)} times in {e['file']}")
        end = t.index(ea, s) + len(ea)
        item = rewrite(t[s:end], e.get("keep_pub", False))
        if "continue;" in item:
            item = continue_rule(item)
        for sub in e.get("sig_subst", []):
            a, b = sub[0], sub[1]
            want = sub[2] if len(sub) > 2 else 1   # optional third element: exact number of occurrences
            if item.count(a) != want:
                raise ExtractError(f"lost anchor for substitution: `{a}` in {e['key']} (found {item.count(a)}, expected {want})")
            item = item.replace(a, b)
        if e.get("loops"):
            item = annotate_loops(item, e["loops"], e["key"])
        for ins in e.get("insert", []):
            k = "before" if "before" in ins else "after"
            if item.count(ins[k]) != 1:
                raise ExtractError(f"lost anchor for annotation: `{ins[k]}` in {e['key']}")
            item = item.replace(ins[k], (ins["text"] + "\n" + ins[k]) if k == "before" else (ins[k] + "\n" + ins["text"] + "\n"))
        if e.get("row_rule"):
            item = row_rule(item)
        if e.get("msg_rule"):
            item = msg_rule(item, {"shaped": True, "at": "at", "at_bytes": "at_bytes", "at_code": "at_code"}.get(e.get("msg_rule"), False))
        if vac:
            item = "assert(false); // @VACUITY " + e["key"] + "\n" + item
        return item
    if e.get("kind", "fn") == "const":
        end = t.index(";", s) + 1
        return rewrite(t[s:end])
    end = match_brace(t, s)
    item = t[s:end]
    item = rewrite(item, e.get("keep_pub", False))
    if e.get("inline"):
        item = inline_calls(item, e["inline"], e["key"])
    if e.get("foreach_rule"):
        item = foreach_rule(item)
    if "continue;" in item:
        item = continue_rule(item)
    if e.get("or_guard_rule"):
        item = or_guard_rule(item)
    if e.get("pub_fields"):
        # struct item: every field is made `pub` (the unit's spec functions read them; a private field would make the
        # datatype opaque to them) - also fields a later change adds
        item = re.sub(r"(?m)^(\s+)(?!pub\b)(\w+)(\s*:\s)", r"\1pub \2\3", item)
    if e.get("abstract_fields") is not None:
        # struct item: every field type is abstracted to u64 (equality-preserving), except the listed fields
        keep = set(e["abstract_fields"])
        def _abs(m):
            return m.group(0) if m.group(2) in keep else f"{m.group(1)}{m.group(2)}: u64,"
        item = re.sub(r"(?m)^(\s*(?:pub\s+)?)(\w+):\s*[^\n]+?,\s*$", _abs, item)
    if e.get("closure_contracts"):
        item = closure_contracts(item, e["closure_contracts"], e["key"])
    for sub in e.get("sig_subst", []):
        # textual substitution in the signature (type erasure of reader type parameters); optional third element: occurrences
        a, b = sub[0], sub[1]
        want = sub[2] if len(sub) > 2 else 1
        if want != "*" and item.count(a) != want:   # "*": every occurrence, also none (threading a ghost parameter into calls)
            raise ExtractError(f"lost anchor for signature substitution: `{a}` in {e['key']}")
        item = item.replace(a, b)
    if e.get("generic_T"):
        # the enclosing impl's type parameter T is instantiated by an opaque stand-in type
        item = re.sub(r"\bT\b", e["generic_T"], item)
    if e.get("loops"):
        item = annotate_loops(item, e["loops"], e["key"])
    for ins in e.get("insert", []):
        # annotation insertion (loop invariants / decreases): `after` must occur exactly once in the item
        if "before" in ins:
            if item.count(ins["before"]) != 1:
                raise ExtractError(f"lost anchor for annotation: `{ins['before']}` in {e['key']}")
            item = item.replace(ins["before"], ins["text"] + "\n" + ins["before"])
            continue
        if item.count(ins["after"]) != 1:
            raise ExtractError(f"lost anchor for annotation: `{ins['after']}` in {e['key']}")
        item = item.replace(ins["after"], ins["after"] + "\n" + ins["text"] + "\n")
    if e.get("row_rule"):
        item = row_rule(item)
    if e.get("lit_rule"):
        item = lit_rule(item)
    if e.get("msg_rule"):
        item = msg_rule(item, {"shaped": True, "at": "at", "at_bytes": "at_bytes", "at_code": "at_code"}.get(e.get("msg_rule"), False))
    if e.get("kind", "fn") == "fn":
        b = item.index("{")
        # find the body's brace: first '{' after the signature's closing paren / return type.
        sig, body = split_sig(item)
        if e.get("ret"):
            m = re.search(r"->\s*([^{]+?)\s*$", sig, re.S)
            if m:
                sig = sig[:m.start()] + "-> " + e["ret"] + " "
            else:
                sig = sig.rstrip() + " -> " + e["ret"] + " "
        if e.get("fn_prefix") and body.lstrip().startswith("{"):
            # ghost bindings / proof hints at the very start of the function body (no text anchor needed)
            k = body.index("{")
            body = body[:k + 1] + "\n" + e["fn_prefix"] + "\n" + body[k + 1:]
        if vac and body.lstrip().startswith("{"):
            k = body.index("{")
            body = body[:k + 1] + " assert(false); // @VACUITY " + e["key"] + "\n" + body[k + 1:]
        item = sig.rstrip() + "\n" + (e.get("contract", "").rstrip() + "\n" if e.get("contract") else "") + body
        if e.get("attrs"):
            item = e["attrs"] + "\n" + item
    return item


def split_sig(item):
    """split a fn item into (signature, body) at the brace opening the body (paren-depth 0, outside generics where-clauses)"""
    depth = 0
    for i, c in enumerate(item):
        if c in "([":
            depth += 1
        elif c in ")]":
            depth -= 1
        elif c == "{" and depth == 0:
            return item[:i], item[i:]
    raise ExtractError("no body")


def fn_spans(path):
    """[(first_line, last_line, name)] of fn items in a generated unit file (brace matching)"""
    text = open(path).read()
    spans = []
    for m in re.finditer(r"\bfn\s+(\w+)", text):
        try:
            end = match_brace(text, m.end())
        except Exception:
            continue
        spans.append((text.count("\n", 0, m.start()) + 1, text.count("\n", 0, end) + 1, m.group(1)))
    return spans


def enclosing_fn(spans, line):
    best = None
    for a, b, n in spans:
        if a <= line <= b and (best is None or a >= best[0]):
            best = (a, b, n)
    return best[2] if best else ""


def _referenced_consts(item, src_file, known_text):
    """module-level `const NAME: T = expr;` items of the source file that the extracted text refers to and the unit
    does not define: constants are part of the meaning of the code, so they are extracted with it (mechanical rule)"""
    out = []
    p = REPO + "/" + src_file
    if not os.path.exists(p):
        return out
    src = open(p).read()
    for name in sorted(set(re.findall(r"\b([A-Z][A-Z0-9_]{2,})\b", item))):
        if re.search(r"\b(const|static)\s+" + name + r"\b", known_text) or re.search(r"\b(const|static)\s+" + name + r"\b", item):
            continue
        m = re.search(r"(?m)^[ \t]*(?:pub(?:\([a-z]+\))?\s+)?const\s+" + name + r"\s*:\s*[^=;]+=\s*[^;]+;", src)
        if m:
            out.append(rewrite(m.group(0).strip()))
    return out


def build_unit(u, outdir, vac=False):
    tpl = open(VERIF + "/contracts/verus/" + u["template"]).read()
    consts = []
    for e in u.get("extract", []):
        marker = "//@EXTRACT " + e["key"]
        if tpl.count(marker) != 1:
            raise ExtractError(f"template {u['template']}: marker {marker} not found exactly once")
        item = extract_item(e, vac)
        if e.get("kind", "fn") in ("fn", "block") and e.get("file"):
            for c in _referenced_consts(item, e["file"], tpl):
                if c not in consts:
                    consts.append(c)
        tpl = tpl.replace(marker, "// ---- extracted from " + e["file"] + " (anchor `" + " ".join(e["anchor"].split()) + "`)\n" + item)
    if consts:
        # constants referenced by the extracted code and not defined by the unit: placed at the crate root of the unit
        k = tpl.index("verus! {") + len("verus! {")
        tpl = tpl[:k] + "\n// ---- constants of the source file referenced by the extracted code\n" + "\n".join("pub " + c if not c.startswith("pub ") else c for c in consts) + "\n" + tpl[k:]
    # label placeholders of contracts / templates (see lit_rule)
    tpl = re.sub(r"@LIT\((.*?)\)@", lambda m: _lit_hash(m.group(1)), tpl)
    path = outdir + "/" + u["id"] + ("_vacuity" if vac else "") + ".rs"
    open(path, "w").write(tpl)
    return path


def vacuity_pass(u, outdir):
    """Reachability guard behind every precondition: a copy of the unit in which every extracted function / fragment
    starts with `assert(false)`. Verus must REJECT each of these assertions; one that is accepted means the function's
    `requires` (or, for a fragment, the wrapper's) is unsatisfiable and everything proved about it is vacuous.
    -> list of extraction keys whose entry assertion was not rejected (empty = fine), or None if the pass could not run"""
    try:
        path = build_unit(u, outdir, vac=True)
    except ExtractError:
        return None
    txt = open(path).read().splitlines()
    want = {}
    for i, l in enumerate(txt, 1):
        m = re.search(r"assert\(false\); // @VACUITY (\S+)", l)
        if m:
            want[i] = m.group(1)
    if not want:
        return []
    try:
        p = subprocess.run(["verus", path, "--multiple-errors", "200"], capture_output=True, text=True, timeout=600)
    except Exception:
        return None
    err = p.stderr or ""
    if "assertion failed" not in err and "verification results" not in (p.stdout or "") + err:
        return None
    hit = set()
    for blk in re.split(r"\n(?=error)", err):
        if blk.startswith("error: assertion failed"):
            m = re.search(r"-->\s*\S+?:(\d+):", blk)
            if m and int(m.group(1)) in want:
                hit.add(int(m.group(1)))
    # after a rejected `assert(false)` Verus assumes it, so later ones in the same function are accepted: only the
    # first guard of each enclosing function has to be rejected
    spans = fn_spans(path)
    first = {}
    for ln in sorted(want):
        first.setdefault(enclosing_fn(spans, ln) or str(ln), ln)
    return sorted(want[ln] for ln in first.values() if ln not in hit)


def run_units(us, log=print):
    outdir = tempfile.mkdtemp(prefix="fpv-verus-")
    res = {"units": []}
    try:
        for u in us:
            row = {"id": u["id"], "file": "contracts/verus/" + u["template"], "functions": u.get("functions", []),
                   "dropped": DROPPED if u.get("extract") else [], "assumptions": list(u.get("assumptions", []))}
            try:
                path = build_unit(u, outdir)
            except ExtractError as ex:
                row.update(status="inconclusive", note=str(ex))
                res["units"].append(row)
                continue
            t0 = time.time()
            try:
                p = subprocess.run(["verus", path, "--output-json", "--time", "--rlimit", str(u.get("rlimit", 50))],
                                   capture_output=True, text=True, timeout=u.get("timeout", 600), cwd=outdir)
            except subprocess.TimeoutExpired:
                row.update(status="inconclusive", note="verus timeout")
                res["units"].append(row)
                continue
            row["time_s"] = round(time.time() - t0, 2)
            try:
                js = json.loads(p.stdout[p.stdout.index("{"):])
            except Exception:
                row.update(status="inconclusive", note="verus produced no JSON: " + (p.stderr or p.stdout)[-600:])
                res["units"].append(row)
                continue
            vr = js.get("verification-results", {})
            row["verified"] = vr.get("verified", 0)
            row["errors"] = vr.get("errors", 0)
            stderr = p.stderr or ""
            if vr.get("encountered-vir-error") or ("verified" not in vr) or \
                    (not vr.get("success") and vr.get("errors", 0) == 0):
                # unsupported construct / type error in the extracted text: not an alarm
                row.update(status="inconclusive", note="verus could not process the unit: " + stderr[-800:])
                res["units"].append(row)
                continue
            if "rlimit" in stderr.lower() and "exceeded" in stderr.lower():
                row.update(status="inconclusive", note="resource limit exceeded: " + stderr[-500:])
                res["units"].append(row)
                continue
            if vr.get("success") and vr.get("errors", 0) == 0 and vr.get("verified", 0) > 0:
                row["status"] = "verified"
                vac = vacuity_pass(u, outdir)
                if vac is None:
                    row["vacuity_guard"] = "not run"
                elif vac:
                    row.update(status="inconclusive", note="vacuity guard: the entry of " + ", ".join(vac) + " is unreachable under its precondition (contradictory requires)")
                else:
                    row["vacuity_guard"] = "every extracted function / fragment is reachable under its precondition (entry `assert(false)` rejected)"
            elif vr.get("verified", 0) + vr.get("errors", 0) == 0:
                row.update(status="inconclusive", note="zero obligations (vacuous unit)")
            else:
                row["status"] = "failed"
                fails = []
                # failing functions from the smt breakdown
                bad_fns = []
                try:
                    for m in js["times-ms"]["smt"]["smt-run-module-times"]:
                        for fb in m.get("function-breakdown", []):
                            if not fb.get("success", True):
                                bad_fns.append(fb["function"])
                except Exception:
                    pass
                # diagnostics
                spans = fn_spans(path)
                for blk in re.split(r"\n(?=error)", stderr):
                    if blk.startswith("error") and "aborting due to" not in blk:
                        first = blk.splitlines()[0]
                        loc = ""
                        fn = ""
                        m = re.search(r"-->\s*(\S+?):(\d+):", blk)
                        if m:
                            loc = os.path.basename(m.group(1)) + ":" + m.group(2)
                            fn = enclosing_fn(spans, int(m.group(2)))
                        # the failed clause: source line marked `failed this postcondition` / `failed precondition`
                        # (read back from the unit file: diagnostics truncate long lines), else the error line itself
                        clause = ""
                        src_lines = open(path).read().splitlines()
                        bl = blk.splitlines()
                        for k in range(len(bl) - 1):
                            if re.search(r"failed (this postcondition|precondition|this invariant)|this loop invariant", bl[k + 1]) or \
                               re.search(r"failed (this postcondition|precondition)", bl[k]):
                                mm = re.match(r"^\s*(\d+)\s*\|", bl[k])
                                if mm and int(mm.group(1)) <= len(src_lines):
                                    clause = src_lines[int(mm.group(1)) - 1].strip()
                                    break
                        if not clause and m and int(m.group(2)) <= len(src_lines):
                            clause = src_lines[int(m.group(2)) - 1].strip()
                        tags = sorted(set(re.findall(r"\[(C\d\d)\]", clause)))
                        fails.append({"desc": first + (" in fn " + fn if fn else (" in " + ",".join(bad_fns) if bad_fns else "")) + (" [clause: " + clause[:300] + "]" if clause else ""),
                                      "loc": loc, "raw": blk[:1500], "clause": clause, "tags": tags})
                if not fails:
                    fails.append({"desc": "verus reported errors in " + ",".join(bad_fns), "loc": "", "raw": stderr[-1500:]})
                row["failed_obligations"] = fails
            if os.environ.get("VERIF_LOGDIR"):
                os.makedirs(os.environ["VERIF_LOGDIR"], exist_ok=True)
                shutil.copy(path, os.environ["VERIF_LOGDIR"])
            res["units"].append(row)
    finally:
        shutil.rmtree(outdir, ignore_errors=True)
    return res
