#!/usr/bin/env python3
"""seed_regression.py [name-prefix ...]: re-run the checks named in each seed's meta.json against /repo HEAD + the seed's patch and
compare with the recorded outcome (caught / inconclusive). Targeted: only the harnesses / Verus units the meta text names.
Writes /tmp/seed-regression.txt. Needs no network; scratch copies under /tmp/mrepo-reg-*, removed after use."""
import json, glob, os, re, subprocess, sys, shutil
V = os.path.dirname(os.path.dirname(os.path.abspath(__file__)))
sys.path.insert(0, V + "/tools")
import verus_engine
units = {u["id"] for u in verus_engine.units()}
harn = set()
for f in glob.glob(V + "/contracts/kani/*.rs"):
    harn |= set(re.findall(r"@harness id=(\w+)", open(f).read()))
out = open("/tmp/seed-regression.txt", "w")
verus_only = "--verus-only" in sys.argv
pref = [a for a in sys.argv[1:] if not a.startswith("--")]
for d in sorted(glob.glob(V + "/seeded/*")):
    n = os.path.basename(d)
    if pref and not any(n.startswith(p) for p in pref):
        continue
    m = json.load(open(d + "/meta.json"))
    txt = m["checks"]
    prop = m["property"]
    expect = "obsolete" if "OBSOLETE" in n else ("inconclusive" if txt.lower().startswith("inconclusive as written") or ("INCONCLUSIVE (exit 2)" in txt and txt.startswith("MISSED at first")) else "caught")
    us = sorted(x for x in units if re.search(r"\b" + x + r"\b", txt))
    hs = sorted(x for x in harn if re.search(r"\b" + x + r"\b", txt))
    if verus_only and (hs or not us):
        continue
    r = "/tmp/mrepo-reg-" + n[:40]
    shutil.rmtree(r, ignore_errors=True); os.makedirs(r)
    subprocess.run("cd /repo && git archive HEAD | tar -x -C " + r, shell=True, check=True)
    ap = subprocess.run(["git", "apply", d + "/patch.diff"], cwd=r, capture_output=True, text=True)
    if ap.returncode != 0:
        print(n, prop, "PATCH-DOES-NOT-APPLY-ON-HEAD", file=out, flush=True); shutil.rmtree(r); continue
    cmd = ["./check", prop]
    if hs:
        cmd += ["--only", ",".join(hs)]
    elif us:
        cmd += ["--no-kani"]
    env = dict(os.environ, VERIF_REPO=r, VERIF_JOBS="6")
    p = subprocess.run(cmd, cwd=V, env=env, capture_output=True, text=True)
    got = "caught" if p.returncode == 1 and "VIOLATION" in p.stdout else ("inconclusive" if p.returncode == 2 else "pass")
    print(n, prop, "expected=" + expect, "got=" + got, "rc=%d" % p.returncode, "harnesses=" + ",".join(hs), "units=" + ",".join(us), "OK" if got == expect or expect == "obsolete" else "MISMATCH", file=out, flush=True)
    shutil.rmtree(r, ignore_errors=True)
print("done", file=out)
