#!/usr/bin/env python3
"""Regenerate MANIFEST.json from meta/properties_meta.json + meta/not_applicable.json."""
import json, os
V = os.path.dirname(os.path.dirname(os.path.abspath(__file__)))
meta = json.load(open(V + "/meta/properties_meta.json"))
na = json.load(open(V + "/meta/not_applicable.json"))
checks = []
for pid in sorted(meta):
    m = meta[pid]
    checks.append({
        "property_id": pid,
        "quick_cmd": f"./check {pid} --tier quick",
        "thorough_cmd": f"./check {pid} --tier thorough",
        "evidence_file": f"/verif/evidence/{pid}.json",
        "replay_cmd_template": f"./check {pid} --replay {{path}}",
        "engine": "contracts",
        "level_claimed": {"category": "proof", "text": m["text"], "design_ref": m["design_ref"]},
        "level_note": m["note"],
        "technique": m["technique"],
    })
man = {
    "version": 1,
    "setup_cmd": "python3 tools/setup.py",
    "hooks": {
        "guard": "cfg(kani)",
        "enable": "none in /repo: every check copies /repo's working tree to a scratch directory and appends `#[cfg(kani)] #[path=...] mod verif_*;` lines there (tools/prepare_scratch.py); Kani sets --cfg kani",
        "baseline_off_cmd": "cd /repo && cargo test --workspace --no-fail-fast --offline",
        "source_commits": [],
        "add_only": True,
    },
    "engines": [
        {"name": "contracts", "path": "/verif/check", "serves_properties": sorted(meta),
         "kind_free_text": "contract-based deductive verification: Kani 0.68/CBMC 6.11 function contracts and full-domain harnesses on the real crates (scratch copy of /repo per run) + Verus on functions extracted mechanically from /repo per run"}
    ],
    "checks": checks,
    "not_applicable": na,
    "notes": "exit 0 = all selected obligations discharged; exit 1 = VIOLATION line(s); exit 2 = inconclusive (lost anchor, tool failure, timeout, vacuity guard) and never an alarm. Known findings: /verif/known_findings.json.",
}
json.dump(man, open(V + "/MANIFEST.json", "w"), indent=1)
print("MANIFEST.json:", len(checks), "checks,", len(na), "not applicable")
