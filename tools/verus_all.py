#!/usr/bin/env python3
"""verus_all.py: run every Verus unit once (smoke test after an engine or template change); prints the units that are not verified
(every unit must verify)."""
import os, sys
sys.path.insert(0, os.path.dirname(os.path.abspath(__file__)))
import verus_engine as v
r = v.run_units(v.units())
bad = [(x["id"], x["status"], (x.get("note") or "")[-300:]) for x in r["units"] if x["status"] != "verified"]
print(len(r["units"]), "units;", len(bad), "not verified")
for b in bad:
    print(" ", b)
sys.exit(0 if not bad else 1)
