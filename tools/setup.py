#!/usr/bin/env python3
"""setup_cmd: nothing to build (python driver); sanity-check that the tools are on PATH and the
registry parses. Everything else is rebuilt from /repo's working tree by each check."""
import os, shutil, sys
V = os.path.dirname(os.path.dirname(os.path.abspath(__file__)))
sys.path.insert(0, V + "/tools")
import driver
ok = True
for tool in ("cargo", "cargo-kani", "verus", "rsync", "cbmc"):
    p = shutil.which(tool)
    print(f"{tool}: {p}")
    ok = ok and p is not None
reg = driver.load_registry()
print(f"{len(reg)} Kani harnesses registered")
os.makedirs(V + "/evidence", exist_ok=True)
sys.exit(0 if ok else 1)
