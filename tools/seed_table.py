#!/usr/bin/env python3
"""seed_table.py: markdown table of seeded/*/meta.json (pasted into DESIGN.md §6)"""
import json, glob, os
print("| seed | property | what it needs to manifest | outcome |")
print("|------|----------|---------------------------|---------|")
for d in sorted(glob.glob("/verif/seeded/*")):
    m = json.load(open(d + "/meta.json"))
    c = m["checks"].replace("|", "/").replace("\n", " ")
    print(f"| `{os.path.basename(d)}` | {m['property']} | {m['needs_to_manifest'].replace('|','/')} | {c} |")
