#!/bin/bash
# usage: confirm_seed.sh <ID>   (seed in /tmp/seed-<ID>, scratch worktree /tmp/wt-<ID>)
# confirms: patch applies, suite passes with patch, demo fails with patch, demo passes without.
id=$1; sd=/tmp/seed-$id; wt=/tmp/wt-$id; out=$sd/confirm.log
: > $out
cd $wt || exit 3
git checkout -q -- . ; git clean -fdq -e target
git apply $sd/patch.diff || { echo "APPLY_FAILED" >> $out; exit 3; }
echo "== suite with patch" >> $out
cargo test --workspace --no-fail-fast --offline -j 6 2>&1 | grep -E "^test result|FAILED" >> $out
fails=$(grep -c "FAILED" $out)
echo "suite_failed_lines=$fails" >> $out
echo "== demo with patch" >> $out
( bash $sd/demo.sh > $sd/demo_with.log 2>&1; echo "demo_with_rc=$?" >> $out )
git checkout -q -- . ; git clean -fdq -e target
echo "== demo without patch" >> $out
( bash $sd/demo.sh > $sd/demo_without.log 2>&1; echo "demo_without_rc=$?" >> $out )
git checkout -q -- . ; git clean -fdq -e target
tail -4 $out
