// Contracts for fastpasta/src/stats/stats_collector/its_stats/alpide_stats.rs
#![allow(dead_code, unused_results, clippy::all)]
use super::*;

fn any_flags() -> ReadoutFlags {
    ReadoutFlags {
        chip_trailers_seen: kani::any(),
        busy_violations: kani::any(),
        data_overrun: kani::any(),
        transmission_in_fatal: kani::any(),
        flushed_incomplete: kani::any(),
        strobe_extended: kani::any(),
        busy_transitions: kani::any(),
    }
}
fn small(f: &ReadoutFlags) -> bool {
    f.chip_trailers_seen < (1 << 30) && f.busy_violations < (1 << 30) && f.data_overrun < (1 << 30)
        && f.transmission_in_fatal < (1 << 30) && f.flushed_incomplete < (1 << 30)
        && f.strobe_extended < (1 << 30) && f.busy_transitions < (1 << 30)
}

// @harness id=full_readout_flags_log props=C13,C14,C04 kind=full tier=quick fns=ReadoutFlags::log,AlpideStats::log_readout_flags
// Chip trailer 1011<flags>: 1000 busy violation, 1100 data overrun, 1110 transmission in fatal, otherwise
// bit2 flushed incomplete, bit1 strobe extended, bit0 busy transition; exactly one trailer counted.
#[kani::proof]
fn full_readout_flags_log() {
    let f0 = any_flags();
    kani::assume(small(&f0));
    let mut s = AlpideStats { readout_flags: f0 };
    let t: u8 = kani::any();
    kani::assume(t & 0xF0 == 0xB0); // the decoder calls it for chip trailers only
    s.log_readout_flags(t);
    let f = s.readout_flags();
    let fl = t & 0x0F;
    let special = fl == 0b1000 || fl == 0b1100 || fl == 0b1110;
    assert!(f.chip_trailers_seen() == f0.chip_trailers_seen + 1, "[C13][C14] every chip trailer is counted once");
    assert!(f.busy_violations() == f0.busy_violations + (fl == 0b1000) as u32, "[C13] busy violation is flags 1000");
    assert!(f.data_overrun() == f0.data_overrun + (fl == 0b1100) as u32, "[C13] data overrun is flags 1100");
    assert!(f.transmission_in_fatal() == f0.transmission_in_fatal + (fl == 0b1110) as u32, "[C13] transmission in fatal is flags 1110");
    assert!(f.flushed_incomplete() == f0.flushed_incomplete + (!special && fl & 0b100 != 0) as u32, "[C13] flushed incomplete is flag bit 2");
    assert!(f.strobe_extended() == f0.strobe_extended + (!special && fl & 0b010 != 0) as u32, "[C13] strobe extended is flag bit 1");
    assert!(f.busy_transitions() == f0.busy_transitions + (!special && fl & 0b001 != 0) as u32, "[C13] busy transition is flag bit 0");
}

// @harness id=full_alpide_stats_sum props=C05,C14,C04 kind=full tier=quick fns=AlpideStats::sum,ReadoutFlags::sum
// Summation of per-frame ALPIDE statistics is field-wise, commutative and associative (order-insensitive accumulation).
#[kani::proof]
fn full_alpide_stats_sum() {
    let (a, b, c) = (any_flags(), any_flags(), any_flags());
    kani::assume(small(&a) && small(&b) && small(&c));
    let mut ab = AlpideStats { readout_flags: a };
    ab.sum(AlpideStats { readout_flags: b });
    let mut ba = AlpideStats { readout_flags: b };
    ba.sum(AlpideStats { readout_flags: a });
    assert!(ab == ba, "[C05] ALPIDE statistics accumulate commutatively");
    assert!(ab.readout_flags().chip_trailers_seen() == a.chip_trailers_seen + b.chip_trailers_seen
        && ab.readout_flags().busy_violations() == a.busy_violations + b.busy_violations
        && ab.readout_flags().data_overrun() == a.data_overrun + b.data_overrun
        && ab.readout_flags().transmission_in_fatal() == a.transmission_in_fatal + b.transmission_in_fatal
        && ab.readout_flags().flushed_incomplete() == a.flushed_incomplete + b.flushed_incomplete
        && ab.readout_flags().strobe_extended() == a.strobe_extended + b.strobe_extended
        && ab.readout_flags().busy_transitions() == a.busy_transitions + b.busy_transitions, "[C14] ALPIDE statistics are summed field by field");
    let mut ab_c = ab;
    ab_c.sum(AlpideStats { readout_flags: c });
    let mut bc = AlpideStats { readout_flags: b };
    bc.sum(AlpideStats { readout_flags: c });
    let mut a_bc = AlpideStats { readout_flags: a };
    a_bc.sum(bc);
    assert!(ab_c == a_bc, "[C05] ALPIDE statistics accumulate associatively");
}
