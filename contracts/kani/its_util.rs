// Contracts for fastpasta/src/analyze/validators/its/util.rs
#![allow(dead_code, unused_results, clippy::all)]
use super::*;
use crate::verif_support::*;

struct FmtRec {
    marker: u64,
    saw_pos: u64,
    calls: u32,
}
// one static with a unique marker (see support.rs)
static mut FM: FmtRec = FmtRec { marker: 0x5EED_0000_0000_0004, saw_pos: 0, calls: 0 };

// @harness id=full_report_error props=C07,C02,C04 kind=full tier=quick fns=its::util::report_error stubs=alloc::fmt::format,flume::Sender::send
// report_error sends exactly one Error message (formatting stubbed: text not covered) and never panics
// for any 10-byte word.
#[kani::proof]
#[kani::stub(alloc::fmt::format, stub_format_nonempty)]
#[kani::stub(flume::Sender::send, stub_send)]
#[kani::unwind(4)]
fn full_report_error() {
    let w: [u8; 10] = kani::any();
    let pos: u64 = kani::any();
    let s = fake_sender();
    report_error(pos, "[E00] x", &w[..], &s);
    assert!(sent_errors() == 1 && sent_total() == 1, "[C02][C07] exactly one error message is sent per reported word");
    core::mem::forget(s);
}

