// Contracts for fastpasta/src/analyze/validators/lib.rs (payload preprocessing)
#![allow(dead_code, unused_results, clippy::all)]
use super::*;
use crate::verif_support::*;

fn spec_ff_run(p: &[u8]) -> usize {
    let mut n = 0;
    while n < p.len() && p[p.len() - 1 - n] == 0xFF {
        n += 1;
    }
    n
}
fn spec_is_v0(p: &[u8]) -> bool {
    p.len() >= 16 && p[10] == 0 && p[11] == 0 && p[12] == 0 && p[13] == 0 && p[14] == 0 && p[15] == 0
}

const NP: usize = 40;

// @harness id=bnd40_ff_padding props=C12,C01,C02,C04 kind=bnd tier=quick bound=payload<=40B fns=extract_payload_ff_padding stubs=alloc::fmt::format
// The trailing 0xFF run is measured exactly; more than 15 bytes is an error (payloads up to 40 bytes:
// covers runs 0..40).
#[kani::proof]
#[kani::stub(alloc::fmt::format, stub_format_nonempty)]
#[kani::unwind(42)]
fn bnd40_ff_padding() {
    ff_padding_case::<NP>();
}

// @harness id=full_detect_format props=C12,C07,C04 kind=full tier=quick fns=detect_payload_data_format
// Format detection looks only at bytes 10..16: complete for any payload length (<= 7 iterations).
#[kani::proof]
#[kani::unwind(8)]
fn full_detect_format() {
    let data: [u8; 64] = kani::any();
    let len: usize = kani::any();
    kani::assume(len <= 64);
    let p = &data[..len];
    let f = detect_payload_data_format(p);
    assert!((f == DataFormat::V0) == spec_is_v0(p), "[C12] 16-byte slots are detected iff bytes 10..16 of the first slot are zero");
    kani::cover!(f == DataFormat::V0);
    kani::cover!(f == DataFormat::V2 && len >= 16);
}

// @harness id=full_chunkify props=C12,C07,C04 kind=full tier=quick fns=chunkify_payload
// Loop-free: chunk size and count for any payload length, format and padding length.
#[kani::proof]
#[kani::unwind(17)]
fn full_chunkify() {
    let data: [u8; 64] = kani::any();
    let len8: u8 = kani::any();
    kani::assume(len8 <= 64);
    let len = len8 as usize;
    let p = &data[..len];
    let pad8: u8 = kani::any();
    kani::assume(pad8 <= 15 && pad8 <= len8);
    let pad = pad8 as usize;
    // the padding vector holds references to the last `pad` bytes (only its length is used)
    let refs: [&u8; 15] = [&data[0]; 15];
    let v0: bool = kani::any();
    kani::assume(!v0 || len % 16 == 0); // format 0 payloads are multiples of the 16-byte slot
    // debug_assert in the code: without cut-off the remainder consists of 0xFF bytes (true for real padding)
    if !v0 && pad <= 9 {
        let mut i = 0;
        while i < 9 {
            if (len / 10) * 10 + i < len {
                kani::assume(data[(len / 10) * 10 + i] == 0xFF);
            }
            i += 1;
        }
    }
    if !v0 && pad > 9 {
        kani::assume((len - pad) % 10 == 0);
    }
    let fmt = if v0 { DataFormat::V0 } else { DataFormat::V2 };
    let chunks = chunkify_payload(p, fmt, &refs[..pad]);
    let n = chunks.len();
    if v0 {
        assert!(n == len / 16, "[C12] format 0: one word per 16-byte slot");
    } else if pad > 9 {
        assert!(n == (len - pad) / 10, "[C12] format 2: padding of 10..15 bytes is cut off before chunking");
    } else {
        assert!(n == len / 10, "[C12] format 2: consecutive 10-byte words");
    }
    let mut c = chunks.clone();
    if let Some(first) = c.next() {
        assert!(first.len() == if v0 { 16 } else { 10 }, "[C12] chunk size is the slot size of the format");
        assert!(first.as_ptr() == p.as_ptr(), "[C12][C07] the first word starts at the first payload byte");
    }
}

// @harness id=bnd40_preprocess props=C12,C07,C01,C02,C04 kind=bnd tier=quick bound=payload<=40B fns=preprocess_payload,extract_payload_ff_padding,detect_payload_data_format,chunkify_payload stubs=alloc::fmt::format
// Composition: for a format-2 payload of n words followed by p<=15 bytes of 0xFF (last word not ending
// in 0xFF, second word not starting with six zero bytes) exactly the n words are produced, in order,
// and no padding byte is in any word.
#[kani::proof]
#[kani::stub(alloc::fmt::format, stub_format_nonempty)]
#[kani::unwind(42)]
fn bnd40_preprocess() {
    preprocess_case::<NP>();
}

// @harness id=bnd40_preprocess_general props=C12,C01,C04 kind=bnd tier=quick bound=payload<=40B fns=preprocess_payload,extract_payload_ff_padding,detect_payload_data_format,chunkify_payload stubs=alloc::fmt::format
// Any word-aligned format-2 payload with at most 15 bytes of padding is accepted (memory safety incl. the
// growth of the padding vector).
#[kani::proof]
#[kani::stub(alloc::fmt::format, stub_format_nonempty)]
#[kani::unwind(42)]
fn bnd40_preprocess_general() {
    preprocess_general_case::<NP>();
}

// ---- bodies shared by the quick (<= 40 bytes) and thorough (<= 96 bytes) harnesses
fn ff_padding_case<const N: usize>() {
    let data: [u8; N] = kani::any();
    let len: usize = kani::any();
    kani::assume(len <= N);
    let p = &data[..len];
    let r = extract_payload_ff_padding(p);
    let run = spec_ff_run(p);
    match &r {
        Ok(v) => {
            assert!(run <= 15, "[C12][C02] a payload ending in more than 15 bytes of 0xFF is rejected");
            assert!(v.len() == run, "[C12] the padding length is the length of the trailing 0xFF run");
        }
        Err(_) => assert!(run > 15, "[C12][C01] a payload ending in at most 15 bytes of 0xFF is accepted"),
    }
    kani::cover!(r.is_err());
    kani::cover!(r.is_ok() && run == 15);
}

fn preprocess_case<const N: usize>() {
    let data: [u8; N] = kani::any();
    let n: usize = kani::any();
    let pad: usize = kani::any();
    kani::assume(n <= 3 && pad <= 10);
    let len = 10 * n + pad;
    kani::assume(len <= N);
    let p = &data[..len];
    // layout assumptions (domain of the property)
    kani::assume(n == 0 || p[10 * n - 1] != 0xFF);
    let mut i = 0;
    while i < pad {
        kani::assume(p[10 * n + i] == 0xFF);
        i += 1;
    }
    kani::assume(!spec_is_v0(p));
    let r = preprocess_payload(p);
    assert!(r.is_ok(), "[C12][C01] a payload with at most 15 bytes of 0xFF padding is accepted");
    let mut chunks = r.unwrap();
    assert!(chunks.len() == n, "[C12] exactly the n words are produced; padding is never a word");
    let mut k = 0;
    while k < n {
        let w = chunks.next().unwrap();
        assert!(w.as_ptr() == p[10 * k..].as_ptr() && w.len() == 10, "[C12][C07] word k is the 10 bytes at offset 10*k");
        k += 1;
    }
}

fn preprocess_general_case<const N: usize>() {
    let data: [u8; N] = kani::any();
    let len: usize = kani::any();
    kani::assume(len >= 1 && len <= N);
    let p = &data[..len];
    let run = spec_ff_run(p);
    kani::assume(run <= 15);
    kani::assume(!spec_is_v0(p));
    kani::assume(if run > 9 { (len - run) % 10 == 0 } else { len % 10 <= run });
    let r = preprocess_payload(p);
    assert!(r.is_ok(), "[C12][C01] a payload with at most 15 bytes of 0xFF padding is accepted");
}

// @harness id=bnd96_ff_padding props=C12,C01,C02,C04 kind=bnd tier=thorough bound=payload<=96B fns=extract_payload_ff_padding stubs=alloc::fmt::format
#[kani::proof]
#[kani::stub(alloc::fmt::format, stub_format_nonempty)]
#[kani::unwind(98)]
fn bnd96_ff_padding() {
    ff_padding_case::<96>();
}

// @harness id=bnd96_preprocess_general props=C12,C01,C04 kind=bnd tier=thorough bound=payload<=96B fns=preprocess_payload,extract_payload_ff_padding,detect_payload_data_format,chunkify_payload stubs=alloc::fmt::format
#[kani::proof]
#[kani::stub(alloc::fmt::format, stub_format_nonempty)]
#[kani::unwind(98)]
fn bnd96_preprocess_general() {
    preprocess_general_case::<96>();
}
