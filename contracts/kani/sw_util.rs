// Contracts for fastpasta/src/words/its/status_words/util.rs (attribute decoders used by the views and the FSM)
#![allow(dead_code, unused_results, clippy::all)]
use super::*;
use crate::verif_support::*;

// @harness id=full_sw_util_bits props=C19,C09,C04 kind=full tier=quick fns=tdh_no_data,tdh_continuation,tdh_soc_trigger,tdh_internal_trigger,tdh_physics_trigger,tdt_packet_done
#[kani::proof]
fn full_sw_util_bits() {
    let w: [u8; 10] = kani::any();
    let v = w80(&w);
    assert!(tdh_no_data(&w[..]) == (bits(v, 13, 13) == 1), "[C19][C09] TDH no_data is bit 13");
    assert!(tdh_continuation(&w[..]) == (bits(v, 14, 14) == 1), "[C19] TDH continuation is bit 14");
    assert!(tdh_internal_trigger(&w[..]) == (bits(v, 12, 12) == 1), "[C19] TDH internal trigger is bit 12");
    assert!(tdh_soc_trigger(&w[..]) == (bits(v, 9, 9) == 1), "[C19] TDH SOC trigger is trigger-type bit 9");
    assert!(tdh_physics_trigger(&w[..]) == (bits(v, 4, 4) == 1), "[C19] TDH physics trigger is trigger-type bit 4");
    assert!(tdt_packet_done(&w[..]) == (bits(v, 64, 64) == 1), "[C19][C09] TDT packet_done is bit 64");
}

fn spec_lane_status(v: u128) -> (bool, bool, bool) {
    // 28 lanes x 2 bits in bits 55:0: 01 warning, 10 error, 11 fatal
    let mut any_w = false;
    let mut any_e = false;
    let mut any_f = false;
    let mut l = 0;
    while l < 28 {
        let s = (v >> (2 * l)) & 0b11;
        if s & 0b01 != 0 { any_w = true; }
        if s & 0b10 != 0 { any_e = true; }
        if s == 0b11 { any_f = true; }
        l += 1;
    }
    (any_w, any_e, any_f)
}

// @harness id=full_sw_util_lane_status props=C19,C04 kind=full tier=quick fns=ddw0_tdt_lane_status_any_warning,ddw0_tdt_lane_status_any_error,ddw0_tdt_lane_status_any_fatal,ddw0_tdt_lane_status_as_string
// Most severe lane status over the 28 two-bit lane fields of a TDT/DDW0 (constant 7-byte loops).
#[kani::proof]
#[kani::unwind(30)]
fn full_sw_util_lane_status() {
    let w: [u8; 10] = kani::any();
    let (any_w, any_e, any_f) = spec_lane_status(w80(&w));
    assert!(ddw0_tdt_lane_status_any_warning(&w[..]) == any_w, "[C19] some lane has its warning bit set");
    assert!(ddw0_tdt_lane_status_any_error(&w[..]) == any_e, "[C19] some lane has its error bit set");
    assert!(ddw0_tdt_lane_status_any_fatal(&w[..]) == any_f, "[C19] some lane is fatal (both bits)");
    let s = ddw0_tdt_lane_status_as_string(&w[..]);
    let expect = if any_f { "Fatal  " } else if any_e { "Error  " } else if any_w { "Warning" } else { "-      " };
    assert!(s.as_str() == expect, "[C19] the view shows the most severe lane status");
}

// @harness id=full_sw_util_strings props=C19,C04 kind=full tier=quick fns=tdh_trigger_as_string,tdh_continuation_as_string,tdh_no_data_as_string,tdt_packet_done_as_string
#[kani::proof]
#[kani::unwind(10)]
fn full_sw_util_strings() {
    let w: [u8; 10] = kani::any();
    let v = w80(&w);
    let t = tdh_trigger_as_string(&w[..]);
    let et = if bits(v, 9, 9) == 1 { "SOC     " } else if bits(v, 12, 12) == 1 { "Internal" } else if bits(v, 4, 4) == 1 { "PhT     " } else { "Other   " };
    assert!(t.as_str() == et, "[C19] trigger kind shown: SOC, else internal, else physics, else other");
    assert!(tdh_continuation_as_string(&w[..]).as_str() == if bits(v, 14, 14) == 1 { "Cont." } else { "     " }, "[C19] continuation shown iff bit 14");
    assert!(tdh_no_data_as_string(&w[..]).as_str() == if bits(v, 13, 13) == 1 { "No data" } else { "Data!  " }, "[C19] no-data shown iff bit 13");
    assert!(tdt_packet_done_as_string(&w[..]).as_str() == if bits(v, 64, 64) == 1 { "Complete" } else { "Split   " }, "[C19] packet status shown from bit 64");
}
