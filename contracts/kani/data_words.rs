// Contracts for fastpasta/src/analyze/validators/its/data_words.rs, data_words/{ib,ob}.rs,
// fastpasta/src/words/its/data_words.rs and status_words::util::is_lane_active
#![allow(dead_code, unused_results, clippy::all)]
use super::ib::IbDataWordValidator;
use super::ob::ObDataWordValidator;
use super::*;
use crate::verif_support::*;
use crate::words::its::data_words::{
    ib_data_word_id_to_lane, ob_data_word_id_to_connector, ob_data_word_id_to_input_number_connector,
    ob_data_word_id_to_lane,
};
use crate::words::its::status_words::util::is_lane_active;

// @harness id=full_dw_check_any props=C11,C01,C02,C04 kind=full tier=quick fns=DataWordSanityChecker::check_any,DataWordSanityChecker::is_valid_any_id stubs=core::fmt::write
#[kani::proof]
#[kani::stub(core::fmt::write, stub_fmt_write)]
fn full_dw_check_any() {
    let b: [u8; 10] = kani::any();
    let r = DataWordSanityChecker::check_any(&b[..]);
    let valid = spec_data_id_valid(b[9]);
    assert!(!(r.is_err() && valid), "[C11][C01] data word with an id in the IL/ML/OL ranges passes");
    assert!(!(r.is_ok() && !valid), "[C11][C02] data word with an id outside the IL/ML/OL ranges fails");
    kani::cover!(r.is_ok());
    kani::cover!(r.is_err());
}

// @harness id=full_lane_mapping props=C11,C13,C04 kind=full tier=quick fns=ob_data_word_id_to_lane,ob_data_word_id_to_input_number_connector,ob_data_word_id_to_connector,ib_data_word_id_to_lane,lane_id_to_lane_number
#[kani::proof]
fn full_lane_mapping() {
    let id: u8 = kani::any();
    assert!(ib_data_word_id_to_lane(id) == spec_ib_lane(id), "[C11][C13] IB lane is the 5 LSB of the id");
    assert!(ob_data_word_id_to_input_number_connector(id) == spec_ob_input(id), "[C11] OB connector input is id[2:0]");
    assert!(ob_data_word_id_to_connector(id) == spec_ob_connector(id), "[C11] OB connector is id[4:3]");
    if spec_is_ob_id(id) && spec_data_id_valid(id) {
        assert!(ob_data_word_id_to_lane(id) == spec_ob_lane(id), "[C11][C13] OB lane is 7*connector + input for valid ids");
        assert!(crate::words::its::data_words::lane_id_to_lane_number(id, false) == spec_ob_lane(id), "[C13] lane number (OB)");
    }
    assert!(crate::words::its::data_words::lane_id_to_lane_number(id, true) == spec_ib_lane(id), "[C13] lane number (IB)");
}

// @harness id=full_is_lane_active props=C11,C01,C02,C04 kind=full tier=quick fns=is_lane_active
#[kani::proof]
fn full_is_lane_active() {
    let lane: u8 = kani::any();
    let mask: u32 = kani::any();
    kani::assume(lane < 32);
    let r = is_lane_active(lane, mask);
    assert!(r == ((mask >> lane) & 1 == 1), "[C11][C01][C02] lane is active iff its bit is set in the IHW active_lanes");
}

// @harness id=full_ib_check props=C11,C01,C02,C04 kind=full tier=quick fns=IbDataWordValidator::check,is_lane_active stubs=alloc::fmt::format
#[kani::proof]
#[kani::stub(alloc::fmt::format, stub_format)]
fn full_ib_check() {
    let b: [u8; 10] = kani::any();
    let mask: u32 = kani::any();
    let r = IbDataWordValidator::check(&b[..], mask);
    let active = (mask >> spec_ib_lane(b[9])) & 1 == 1;
    assert!(!(r.is_err() && active), "[C11][C01] IB data word on an active lane passes");
    assert!(!(r.is_ok() && !active), "[C11][C02] IB data word on an inactive lane fails");
    kani::cover!(r.is_ok());
    kani::cover!(r.is_err());
}

// @harness id=full_ob_check props=C11,C01,C02,C04 kind=full tier=quick fns=ObDataWordValidator::check,ob_data_word_id_to_lane,ob_data_word_id_to_input_number_connector,is_lane_active stubs=core::fmt::write
// Domain: every id the caller (preprocess_data_word) can pass, i.e. id[7:5] == 0b010.
#[kani::proof]
#[kani::stub(alloc::fmt::format, stub_format)]
#[kani::unwind(4)]
#[kani::solver(minisat)]
fn full_ob_check() {
    // only byte 9 (the id) is read by the function: bytes 0..8 are fixed without loss of generality
    let id: u8 = kani::any();
    let b: [u8; 10] = [0, 0, 0, 0, 0, 0, 0, 0, 0, id];
    let mask: u32 = kani::any();
    kani::assume(spec_is_ob_id(b[9]));
    let r = ObDataWordValidator::check(&b[..], mask);
    if spec_data_id_valid(b[9]) {
        let active = (mask >> spec_ob_lane(b[9])) & 1 == 1;
        assert!(!(r.is_err() && active), "[C11][C01] OB data word with valid id on an active lane passes");
        assert!(!(r.is_ok() && !active), "[C11][C02] OB data word on an inactive lane fails");
    } else {
        // ids 0x47/0x4F/0x57/0x5F: connector input 7 > 6
        assert!(r.is_err(), "[C11][C02] OB data word with connector input > 6 fails");
    }
    kani::cover!(r.is_ok());
    kani::cover!(r.is_err() && spec_data_id_valid(b[9]));
    kani::cover!(!spec_data_id_valid(b[9]));
}
