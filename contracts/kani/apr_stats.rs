// Contracts for alice_protocol_reader/src/stats.rs (scanner-side counters)
#![allow(dead_code, unused_results, clippy::all)]
use super::*;
use crate::verif_apr_support::*;

// @harness id=full_input_stats_counters props=C14,C04 kind=full tier=quick fns=Stats::new,Stats::rdh_seen,Stats::rdh_filtered,Stats::add_payload_size,Stats::flush_stats stubs=flume::Sender::send
// Conservation: (sum of values already reported) + (pending counter) grows by exactly 1 / payload size per
// call; flush reports the pending values. No counter overflows.
#[kani::proof]
#[kani::stub(flume::Sender::send, stub_send)]
#[kani::unwind(4)]
fn full_input_stats_counters() {
    let mut s = Stats::new(fake_sender());
    s.rdhs_seen = kani::any();
    s.rdhs_filtered = kani::any();
    s.payload_size_seen = kani::any();
    kani::assume(s.rdhs_seen < u32::MAX && s.rdhs_filtered < u32::MAX && s.payload_size_seen < u32::MAX);
    let (seen0, filt0, pay0) = (s.rdhs_seen as u64, s.rdhs_filtered as u64, s.payload_size_seen as u64);
    let sz: u16 = kani::any();
    let which: u8 = kani::any();
    kani::assume(which <= 2);
    if which == 0 {
        s.rdh_seen();
        assert!(unsafe { IREC.rdh_seen } + s.rdhs_seen as u64 == seen0 + 1, "[C14] every visited RDH is counted exactly once");
    } else if which == 1 {
        s.rdh_filtered();
        assert!(unsafe { IREC.rdh_filtered } + s.rdhs_filtered as u64 == filt0 + 1, "[C14] every RDH matching the filter is counted exactly once");
    } else {
        s.add_payload_size(sz);
        assert!(unsafe { IREC.payload } + s.payload_size_seen as u64 == pay0 + sz as u64, "[C14] payload bytes are accumulated exactly");
    }
    let (a, b, c) = unsafe { (IREC.rdh_seen, IREC.rdh_filtered, IREC.payload) };
    let (pa, pb, pc) = (s.rdhs_seen as u64, s.rdhs_filtered as u64, s.payload_size_seen as u64);
    s.flush_stats();
    assert!(unsafe { IREC.rdh_seen } == a + pa && unsafe { IREC.rdh_filtered } == b + pb && unsafe { IREC.payload } == c + pc, "[C14] flushing reports exactly the pending counters");
    core::mem::forget(s);
}

// @harness id=bnd_input_stats_links props=C14,C04 kind=bnd tier=quick bound=links<=2,fees<=2 fns=Stats::try_add_link,Stats::try_add_fee_id stubs=flume::Sender::send
// A link / FEE id is reported the first time it is seen and never again (two already-known ids).
#[kani::proof]
#[kani::stub(flume::Sender::send, stub_send)]
#[kani::unwind(4)]
fn bnd_input_stats_links() {
    let mut s = Stats::new(fake_sender());
    let (l0, l1, l): (u8, u8, u8) = (kani::any(), kani::any(), kani::any());
    kani::assume(l0 != l1);
    s.try_add_link(l0);
    s.try_add_link(l1);
    assert!(unsafe { IREC.links } == 2, "[C14] distinct links are each reported");
    s.try_add_link(l);
    let known = l == l0 || l == l1;
    assert!(unsafe { IREC.links } == if known { 2 } else { 3 }, "[C14] a link is reported exactly when it is new");
    if !known {
        assert!(unsafe { IREC.last_link } == l, "[C14] the reported link is the one observed");
    }
    let (f0, f): (u16, u16) = (kani::any(), kani::any());
    s.try_add_fee_id(f0);
    s.try_add_fee_id(f);
    assert!(unsafe { IREC.fees } == if f == f0 { 1 } else { 2 }, "[C14] a FEE id is reported exactly when it is new");
    core::mem::forget(s);
}
