// Contracts for fastpasta/src/analyze/validators/its/alpide.rs (frame-level ALPIDE checks)
#![allow(dead_code, unused_results, clippy::all)]
use super::*;
use crate::verif_support::*;
use super::lane_alpide_frame_analyzer::verif_lane_analyzer::{stub_analyze_alpide_frame, LN};

struct BcsRec {
    marker: u64,
    calls: u32,
    lanes: usize,
}
// one static with a unique marker (see support.rs)
static mut BCS: BcsRec = BcsRec { marker: 0x5EED_0000_0000_0006, calls: 0, lanes: 0 };
fn stub_validate_lane_bcs(validated_lanes: &[ValidatedLane], _m: &mut Vec<String>, _i: &mut Vec<u8>) {
    unsafe {
        BCS.calls += 1;
        BCS.lanes = validated_lanes.len();
    }
}

// @harness id=bnd1_check_alpide_data_frame props=C13,C01,C02,C04 kind=bnd tier=quick bound=lanes=1 fns=check_alpide_data_frame,AlpideReadoutFrame::store_lane_data,LaneDataFrame::lane_number stubs=alloc::fmt::format,LaneAlpideFrameAnalyzer::analyze_alpide_frame,validate_lane_bcs
// Frame level (one inner-barrel lane, per-lane analysis replaced by its outcome; two lanes exceed CBMC's
// memory): a lane with errors is listed by lane NUMBER, a lane that announced a fatal state is recorded by
// lane NUMBER (what the lane-count and grouping rules use), an error-free non-fatal lane goes to the
// cross-lane bunch counter comparison.
#[kani::proof]
#[kani::stub(alloc::fmt::format, stub_format)]
#[kani::stub(LaneAlpideFrameAnalyzer::analyze_alpide_frame, stub_analyze_alpide_frame)]
#[kani::stub(validate_lane_bcs, stub_validate_lane_bcs)]
#[kani::unwind(12)]
fn bnd1_check_alpide_data_frame() {
    let cfg: &'static MockConfig = Box::leak(Box::new(MockConfig::new()));
    let mut frame = AlpideReadoutFrame::new(0x40);
    let id0: u8 = kani::any();
    kani::assume((0x20..=0x28).contains(&id0));
    let mut w0 = [0u8; 10];
    w0[9] = id0;
    frame.store_lane_data(&w0[..], Layer::Inner);
    frame.close_frame(0x80);
    let o0: u8 = kani::any();
    kani::assume(o0 <= 2);
    unsafe {
        LN.outcome = [o0, 0, 0];
        LN.bc = [kani::any(), 0, 0];
        LN.calls = 0;
    }
    let (err_ids, err_msgs, _stats, fatal) = check_alpide_data_frame(&frame, cfg);
    assert!(unsafe { LN.calls } == 1, "[C13] every lane of the frame is analysed once");
    let l0 = id0 & 0x1F;
    assert!(err_ids.len() == (o0 == 1) as usize && err_msgs.len() == (o0 == 1) as usize, "[C13][C01][C02] exactly the lanes with errors are listed");
    if o0 == 1 {
        assert!(err_ids[0] == l0, "[C13][C02] a lane in error is listed by its lane number");
    }
    match &fatal {
        None => assert!(o0 != 2, "[C13][C01][C02] a lane that announced a fatal state is recorded"),
        Some(f) => assert!(o0 == 2 && f.len() == 1 && f[0] == l0, "[C13][C01] a fatal lane is recorded by its lane number (the lane-count and grouping rules use lane numbers)"),
    }
    assert!(unsafe { BCS.calls } == 1 && unsafe { BCS.lanes } == (o0 == 0) as usize, "[C13] exactly the error-free, non-fatal lanes take part in the cross-lane bunch counter comparison");
}
