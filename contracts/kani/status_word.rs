// Contracts for fastpasta/src/analyze/validators/its/status_word.rs (+ status_word/{ihw,tdh,tdt,ddw}.rs)
// and the bit-field accessors in fastpasta/src/words/its/status_words/*.rs
#![allow(dead_code, unused_results, clippy::all)]
use super::*;
use crate::verif_support::*;

// @harness id=full_sanity_ihw props=C11,C01,C02,C04 kind=full tier=quick fns=StatusWordSanityChecker::check_ihw,IhwValidator::sanity_check,Ihw::from_buf,Ihw::load,Ihw::reserved,Ihw::is_reserved_0,Ihw::id,Ihw::active_lanes stubs=core::fmt::write
#[kani::proof]
#[kani::stub(core::fmt::write, stub_fmt_write)]
fn full_sanity_ihw() {
    let b: [u8; 10] = kani::any();
    let w = Ihw::load(&mut &b[..]).unwrap();
    assert!(w == Ihw::from_buf(&b).unwrap(), "[C11] load == from_buf");
    let r = StatusWordSanityChecker::check_ihw(&w);
    let sane = spec_ihw_sane(&b);
    assert!(!(r.is_err() && sane), "[C11][C01] IHW with right id and zero reserved bits passes");
    assert!(!(r.is_ok() && !sane), "[C11][C02] IHW with wrong id or a reserved bit set fails");
    if let Err(e) = &r {
        assert!(!e.is_empty(), "[C11][C02] IHW sanity error carries a message");
    }
    assert!(w.id() == b[9], "[C11] IHW id accessor is bits 79:72");
    assert!(w.active_lanes() as u128 == bits(w80(&b), 27, 0), "[C11][C02] IHW active_lanes accessor is bits 27:0");
    kani::cover!(r.is_ok());
    kani::cover!(r.is_err() && b[9] == ID_IHW);
}

// @harness id=full_sanity_tdh props=C11,C01,C02,C04 kind=full tier=quick fns=StatusWordSanityChecker::check_tdh,TdhValidator::sanity_check,Tdh::from_buf,Tdh::load,Tdh::is_reserved_0,Tdh::reserved0,Tdh::reserved1,Tdh::reserved2,Tdh::trigger_type,Tdh::internal_trigger,Tdh::id stubs=core::fmt::write
#[kani::proof]
#[kani::stub(core::fmt::write, stub_fmt_write)]
fn full_sanity_tdh() {
    let b: [u8; 10] = kani::any();
    let w = Tdh::load(&mut &b[..]).unwrap();
    assert!(w == Tdh::from_buf(&b).unwrap(), "[C11] load == from_buf");
    let r = StatusWordSanityChecker::check_tdh(&w);
    let sane = spec_tdh_sane(&b);
    assert!(!(r.is_err() && sane), "[C11][C01] TDH with right id, zero reserved bits and a trigger passes");
    assert!(!(r.is_ok() && !sane), "[C11][C02] TDH with wrong id, reserved bit set or no trigger at all fails");
    if let Err(e) = &r {
        assert!(!e.is_empty(), "[C11][C02] TDH sanity error carries a message");
    }
    kani::cover!(r.is_ok());
    kani::cover!(r.is_err() && b[9] == ID_TDH);
}

// @harness id=full_accessors_tdh props=C11,C02,C20,C04 kind=full tier=quick fns=Tdh::trigger_bc,Tdh::continuation,Tdh::no_data,Tdh::internal_trigger,Tdh::trigger_type,Tdh::trigger_orbit,Tdh::id
#[kani::proof]
fn full_accessors_tdh() {
    let b: [u8; 10] = kani::any();
    let v = w80(&b);
    let w = Tdh::from_buf(&b).unwrap();
    assert!(w.id() == b[9], "[C11] TDH id is bits 79:72");
    assert!(w.trigger_type() as u128 == bits(v, 11, 0), "[C11][C02] TDH trigger_type is bits 11:0");
    assert!(w.internal_trigger() as u128 == bits(v, 12, 12), "[C11][C02][C20] TDH internal_trigger is bit 12");
    assert!(w.no_data() as u128 == bits(v, 13, 13), "[C11][C02] TDH no_data is bit 13");
    assert!(w.continuation() as u128 == bits(v, 14, 14), "[C11][C02] TDH continuation is bit 14");
    assert!(w.trigger_bc() as u128 == bits(v, 27, 16), "[C11][C02][C20] TDH trigger_bc is bits 27:16");
    assert!(w.trigger_orbit() as u128 == bits(v, 63, 32), "[C11][C02] TDH trigger_orbit is bits 63:32");
}

// @harness id=full_sanity_tdt props=C11,C01,C02,C04 kind=full tier=quick fns=StatusWordSanityChecker::check_tdt,TdtValidator::sanity_check,Tdt::from_buf,Tdt::load,Tdt::is_reserved_0,Tdt::reserved0,Tdt::reserved1,Tdt::reserved2,Tdt::id,Tdt::packet_done stubs=core::fmt::write
#[kani::proof]
#[kani::stub(core::fmt::write, stub_fmt_write)]
fn full_sanity_tdt() {
    let b: [u8; 10] = kani::any();
    let v = w80(&b);
    let w = Tdt::load(&mut &b[..]).unwrap();
    assert!(w == Tdt::from_buf(&b).unwrap(), "[C11] load == from_buf");
    let r = StatusWordSanityChecker::check_tdt(&w);
    let sane = spec_tdt_sane(&b);
    assert!(!(r.is_err() && sane), "[C11][C01] TDT with right id and zero reserved bits passes");
    assert!(!(r.is_ok() && !sane), "[C11][C02] TDT with wrong id or a reserved bit set fails");
    if let Err(e) = &r {
        assert!(!e.is_empty(), "[C11][C02] TDT sanity error carries a message");
    }
    assert!(w.id() == b[9], "[C11] TDT id is bits 79:72");
    assert!(w.packet_done() == (bits(v, 64, 64) == 1), "[C11][C02][C13] TDT packet_done is bit 64");
    assert!(w.transmission_timeout() == (bits(v, 65, 65) == 1), "[C11] TDT transmission_timeout is bit 65");
    assert!(w.lane_starts_violation() == (bits(v, 67, 67) == 1), "[C11] TDT lane_starts_violation is bit 67");
    assert!(w.timeout_in_idle() == (bits(v, 61, 61) == 1), "[C11] TDT timeout_in_idle is bit 61");
    assert!(w.timeout_start_stop() == (bits(v, 62, 62) == 1), "[C11] TDT timeout_start_stop is bit 62");
    assert!(w.timeout_to_start() == (bits(v, 63, 63) == 1), "[C11] TDT timeout_to_start is bit 63");
    assert!(w.lane_status_15_0() as u128 == bits(v, 31, 0), "[C11] TDT lane_status_15_0 is bits 31:0");
    assert!(w.lane_status_23_16() as u128 == bits(v, 47, 32), "[C11] TDT lane_status_23_16 is bits 47:32");
    assert!(w.lane_status_27_24() as u128 == bits(v, 55, 48), "[C11] TDT lane_status_27_24 is bits 55:48");
    kani::cover!(r.is_ok());
    kani::cover!(r.is_err() && b[9] == ID_TDT);
}

// @harness id=full_sanity_ddw0 props=C11,C01,C02,C04 kind=full tier=quick fns=StatusWordSanityChecker::check_ddw0,Ddw0Validator::sanity_check,Ddw0::from_buf,Ddw0::load,Ddw0::is_reserved_0,Ddw0::reserved0_1,Ddw0::reserved2,Ddw0::index,Ddw0::id stubs=core::fmt::write
#[kani::proof]
#[kani::stub(core::fmt::write, stub_fmt_write)]
fn full_sanity_ddw0() {
    let b: [u8; 10] = kani::any();
    let v = w80(&b);
    let w = Ddw0::load(&mut &b[..]).unwrap();
    assert!(w == Ddw0::from_buf(&b).unwrap(), "[C11] load == from_buf");
    let r = StatusWordSanityChecker::check_ddw0(&w);
    let sane = spec_ddw0_sane(&b);
    assert!(!(r.is_err() && sane), "[C11][C01] DDW0 with right id, zero reserved bits and index 0 passes");
    assert!(!(r.is_ok() && !sane), "[C11][C02] DDW0 with wrong id, reserved bit set or non-zero index fails");
    if let Err(e) = &r {
        assert!(!e.is_empty(), "[C11][C02] DDW0 sanity error carries a message");
    }
    assert!(w.id() == b[9], "[C11] DDW0 id is bits 79:72");
    assert!(w.index() as u128 == bits(v, 71, 68), "[C11][C02] DDW0 index is bits 71:68");
    assert!(w.lane_status() as u128 == bits(v, 55, 0), "[C11] DDW0 lane_status is bits 55:0");
    assert!(w.transmission_timeout() == (bits(v, 65, 65) == 1), "[C11] DDW0 transmission_timeout is bit 65");
    assert!(w.lane_starts_violation() == (bits(v, 67, 67) == 1), "[C11] DDW0 lane_starts_violation is bit 67");
    kani::cover!(r.is_ok());
    kani::cover!(r.is_err() && b[9] == ID_DDW0);
}

// @harness id=full_accessors_cdw props=C02,C04 kind=full tier=quick fns=Cdw::from_buf,Cdw::calibration_word_index,Cdw::calibration_user_fields,Cdw::id
#[kani::proof]
fn full_accessors_cdw() {
    let b: [u8; 10] = kani::any();
    let v = w80(&b);
    let w = Cdw::load(&mut &b[..]).unwrap();
    assert!(w == Cdw::from_buf(&b).unwrap(), "[C02] CDW load == from_buf");
    assert!(w.id() == b[9], "[C02] CDW id is bits 79:72");
    assert!(w.calibration_user_fields() as u128 == bits(v, 47, 0), "[C02] CDW user fields are bits 47:0");
    assert!(w.calibration_word_index() as u128 == bits(v, 71, 48), "[C02] CDW index is bits 71:48");
}

// @harness id=neg_sanity_tdt props=C11 kind=neg tier=quick expect=fail fns=TdtValidator::sanity_check
#[kani::proof]
#[kani::stub(core::fmt::write, stub_fmt_write)]
fn neg_sanity_tdt() {
    let b: [u8; 10] = kani::any();
    let w = Tdt::from_buf(&b).unwrap();
    let r = StatusWordSanityChecker::check_tdt(&w);
    // deliberately false: bit 65 (transmission timeout) is not reserved
    assert!(!(r.is_ok() && bits(w80(&b), 65, 65) == 1), "[NEG] deliberately false");
}
