// Shared verification support for the alice_protocol_reader crate (cfg(kani) only).
#![allow(dead_code, missing_docs, unused_results, clippy::all, missing_debug_implementations)]
use crate::bufreader_wrapper::BufferedReaderWrapper;
use crate::stats::InputStatType;
use std::io;

pub fn stub_fmt_write(output: &mut dyn core::fmt::Write, _a: core::fmt::Arguments<'_>) -> core::fmt::Result {
    output.write_str("?")
}
pub fn stub_format(_args: core::fmt::Arguments<'_>) -> String {
    String::new()
}

// ---- recorder for flume::Sender<InputStatType>::send
// One static with a unique marker (see the note in support.rs: Kani 0.68 aliases zero-initialised 8-byte statics
// with a std constant).
pub struct InputRecorder {
    pub marker: u64,
    pub total: u32,
    pub errors: u32,
    pub fatal: u32,
    pub rdh_seen: u64,
    pub rdh_filtered: u64,
    pub payload: u64,
    pub links: u32,
    pub fees: u32,
    pub last_link: u8,
    pub last_fee: u16,
    pub run_trigger: u32,
    pub data_format: u32,
    pub system_id: u32,
}
pub static mut IREC: InputRecorder = InputRecorder {
    marker: 0x5EED_0000_0000_0002,
    total: 0,
    errors: 0,
    fatal: 0,
    rdh_seen: 0,
    rdh_filtered: 0,
    payload: 0,
    links: 0,
    fees: 0,
    last_link: 0,
    last_fee: 0,
    run_trigger: 0,
    data_format: 0,
    system_id: 0,
};

pub fn stub_send<T>(_s: &flume::Sender<T>, msg: T) -> Result<(), flume::SendError<T>> {
    assert!(core::mem::size_of::<T>() == core::mem::size_of::<InputStatType>());
    let st: &InputStatType = unsafe { &*(&msg as *const T as *const InputStatType) };
    unsafe {
        IREC.total += 1;
        match st {
            InputStatType::Error(_) => IREC.errors += 1,
            InputStatType::Fatal(_) => IREC.fatal += 1,
            InputStatType::RDHSeen(n) => IREC.rdh_seen += *n as u64,
            InputStatType::RDHFiltered(n) => IREC.rdh_filtered += *n as u64,
            InputStatType::PayloadSize(n) => IREC.payload += *n as u64,
            InputStatType::LinksObserved(l) => {
                IREC.links += 1;
                IREC.last_link = *l;
            }
            InputStatType::FeeId(f) => {
                IREC.fees += 1;
                IREC.last_fee = *f;
            }
            InputStatType::RunTriggerType(_) => IREC.run_trigger += 1,
            InputStatType::DataFormat(_) => IREC.data_format += 1,
            InputStatType::SystemId(_) => IREC.system_id += 1,
        }
    }
    Ok(())
}
pub fn fake_sender() -> flume::Sender<InputStatType> {
    unsafe { core::mem::transmute::<usize, flume::Sender<InputStatType>>(0x1000) }
}

// ---- independent little-endian decoding of the 64 RDH bytes (documented layout)
pub fn le16(b: &[u8], i: usize) -> u16 { u16::from_le_bytes([b[i], b[i + 1]]) }
pub fn le32(b: &[u8], i: usize) -> u32 { u32::from_le_bytes([b[i], b[i + 1], b[i + 2], b[i + 3]]) }
pub fn le64(b: &[u8], i: usize) -> u64 {
    u64::from_le_bytes([b[i], b[i + 1], b[i + 2], b[i + 3], b[i + 4], b[i + 5], b[i + 6], b[i + 7]])
}
pub fn s_fee_id(b: &[u8]) -> u16 { le16(b, 2) }
pub fn s_offset_to_next(b: &[u8]) -> u16 { le16(b, 8) }
pub fn s_memory_size(b: &[u8]) -> u16 { le16(b, 10) }
pub fn s_link_id(b: &[u8]) -> u8 { b[12] }

/// In-memory stand-in for the buffered file reader / stdin reader: a byte buffer with a position.
/// `read` returns as many bytes as are available (like BufReader over a file), `seek_relative_offset`
/// moves the position forward; seeking beyond the end is allowed (as for files) and later reads hit EOF.
pub struct MemReader<const N: usize> {
    pub data: [u8; N],
    pub len: usize,
    pub pos: usize,
    pub max_read_end: usize,
}
impl<const N: usize> MemReader<N> {
    pub fn new(data: [u8; N], len: usize) -> Self {
        Self { data, len, pos: 0, max_read_end: 0 }
    }
}
impl<const N: usize> io::Read for MemReader<N> {
    fn read(&mut self, buf: &mut [u8]) -> io::Result<usize> {
        let avail = if self.pos < self.len { self.len - self.pos } else { 0 };
        let n = if buf.len() < avail { buf.len() } else { avail };
        buf[..n].copy_from_slice(&self.data[self.pos..self.pos + n]);
        self.pos += n;
        if n > 0 && self.pos > self.max_read_end {
            self.max_read_end = self.pos;
        }
        Ok(n)
    }
}
impl<const N: usize> io::Seek for MemReader<N> {
    fn seek(&mut self, _pos: io::SeekFrom) -> io::Result<u64> {
        Err(io::Error::new(io::ErrorKind::Other, "unused"))
    }
}
impl<const N: usize> BufferedReaderWrapper for MemReader<N> {
    fn seek_relative_offset(&mut self, offset: i64) -> io::Result<()> {
        if offset < 0 {
            return Err(io::Error::new(io::ErrorKind::InvalidInput, "negative seek"));
        }
        self.pos += offset as usize;
        Ok(())
    }
}
