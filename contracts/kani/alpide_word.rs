// Contracts for fastpasta/src/words/its/alpide/alpide_word.rs
#![allow(dead_code, unused_results, clippy::all)]
use super::*;

/// ALPIDE byte classes (ALPIDE data format, as quoted in the enum comments)
fn spec_class(b: u8) -> Option<AlpideWord> {
    use AlpideProtocolExtension as A;
    match b {
        0x00..=0x3F => Some(AlpideWord::DataLong),
        0x40..=0x7F => Some(AlpideWord::DataShort),
        0xA0..=0xAF => Some(AlpideWord::ChipHeader),
        0xB0..=0xBF => Some(AlpideWord::ChipTrailer),
        0xC0..=0xDF => Some(AlpideWord::RegionHeader),
        0xE0..=0xEF => Some(AlpideWord::ChipEmptyFrame),
        0xF0 => Some(AlpideWord::BusyOn),
        0xF1 => Some(AlpideWord::BusyOff),
        0xF2 => Some(AlpideWord::Ape(A::StripStart)),
        0xF4 => Some(AlpideWord::Ape(A::DetectorTimeout)),
        0xF5 => Some(AlpideWord::Ape(A::OutOfTable)),
        0xF6 => Some(AlpideWord::Ape(A::ProtocolError)),
        0xF7 => Some(AlpideWord::Ape(A::LaneFifoOverflowError)),
        0xF8 => Some(AlpideWord::Ape(A::FsmError)),
        0xF9 => Some(AlpideWord::Ape(A::PendingDetectorEventLimit)),
        0xFA => Some(AlpideWord::Ape(A::PendingLaneEventLimit)),
        0xFB => Some(AlpideWord::Ape(A::O2nError)),
        0xFC => Some(AlpideWord::Ape(A::RateMissingTriggerError)),
        0xFD => Some(AlpideWord::Ape(A::PeDataMissing)),
        0xFE => Some(AlpideWord::Ape(A::OotDataMissing)),
        _ => None,
    }
}

// @harness id=full_alpide_from_byte props=C13,C04 kind=full tier=quick fns=AlpideWord::from_byte,AlpideWord::match_exact,AlpideProtocolExtension::from_byte
#[kani::proof]
fn full_alpide_from_byte() {
    let b: u8 = kani::any();
    let r = AlpideWord::from_byte(b);
    assert!(r.ok() == spec_class(b), "[C13] every ALPIDE byte is classified as the ALPIDE data format prescribes");
    assert!(r != Ok(AlpideWord::Ape(AlpideProtocolExtension::Padding)), "[C13][C04] from_byte never yields APE padding (soundness of the unreachable hint in the lane decoder)");
}
