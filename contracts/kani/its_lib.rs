// Contracts for fastpasta/src/analyze/validators/its/lib.rs
#![allow(dead_code, unused_results, clippy::all)]
use super::*;
use crate::verif_support::*;

// @harness id=full_word_from_id props=C19,C09,C04 kind=full tier=quick fns=ItsPayloadWord::from_id
// Word type by id (views): the id table, and never a compound (state-dependent) variant.
#[kani::proof]
#[kani::unwind(4)]
fn full_word_from_id() {
    let id: u8 = kani::any();
    let r = ItsPayloadWord::from_id(id);
    match r {
        Ok(ItsPayloadWord::DataWord) => assert!(spec_data_id_valid(id), "[C19] data word ids"),
        Ok(ItsPayloadWord::TDH) => assert!(id == ID_TDH, "[C19] TDH id 0xE8"),
        Ok(ItsPayloadWord::TDT) => assert!(id == ID_TDT, "[C19] TDT id 0xF0"),
        Ok(ItsPayloadWord::IHW) => assert!(id == ID_IHW, "[C19] IHW id 0xE0"),
        Ok(ItsPayloadWord::DDW0) => assert!(id == ID_DDW0, "[C19] DDW0 id 0xE4"),
        Ok(ItsPayloadWord::CDW) => assert!(id == ID_CDW, "[C19] CDW id 0xF8"),
        Ok(_) => assert!(false, "[C19][C04] from_id never yields a state-dependent variant (soundness of the view's unreachable hint)"),
        Err(_) => assert!(!spec_data_id_valid(id) && id != ID_TDH && id != ID_TDT && id != ID_IHW && id != ID_DDW0 && id != ID_CDW, "[C19] only unknown ids are rejected"),
    }
}
