// Contracts for fastpasta/src/analyze/validators/its/lib.rs
#![allow(dead_code, unused_results, clippy::all)]
use super::*;
use crate::verif_support::*;

// @harness id=full_word_from_id props=C19,C09,C04 kind=full tier=quick fns=ItsPayloadWord::from_id
// Word type by id (views): the id table, and never a compound (state-dependent) variant.
#[kani::proof]
#[kani::unwind(4)]
fn full_word_from_id() {
    let id: u8 = kani::any();
    let r = ItsPayloadWord::from_id(id);
    match r {
        Ok(ItsPayloadWord::DataWord) => assert!(spec_data_id_valid(id), "[C19] data word ids"),
        Ok(ItsPayloadWord::TDH) => assert!(id == ID_TDH, "[C19] TDH id 0xE8"),
        Ok(ItsPayloadWord::TDT) => assert!(id == ID_TDT, "[C19] TDT id 0xF0"),
        Ok(ItsPayloadWord::IHW) => assert!(id == ID_IHW, "[C19] IHW id 0xE0"),
        Ok(ItsPayloadWord::DDW0) => assert!(id == ID_DDW0, "[C19] DDW0 id 0xE4"),
        Ok(ItsPayloadWord::CDW) => assert!(id == ID_CDW, "[C19] CDW id 0xF8"),
        Ok(_) => assert!(false, "[C19][C04] from_id never yields a state-dependent variant (soundness of the view's unreachable hint)"),
        Err(_) => assert!(!spec_data_id_valid(id) && id != ID_TDH && id != ID_TDT && id != ID_IHW && id != ID_DDW0 && id != ID_CDW, "[C19] only unknown ids are rejected"),
    }
}

use alice_protocol_reader::prelude::*;

// one static with a unique marker (Kani 0.68 aliases zero-initialised 8-byte statics with the std constant
// RawVec::ZERO_CAP, see support.rs; with separate `static mut CHECK_BASE: usize = 0` this harness reported
// spurious `__rust_dealloc` failures for every payload without trailing 0xFF)
struct CheckRec {
    marker: u64,
    calls: u32,
    order_ok: bool,
    base: usize,
    stride: usize,
}
static mut CK: CheckRec = CheckRec { marker: 0x5EED_0000_0000_0003, calls: 0, order_ok: true, base: 0, stride: 10 };

/// stand-in for CdpRunningValidator::check (its dispatch is proved in Verus unit v_dispatch, its handlers in
/// Kani full_handler_*): records that the k-th call got the 10 bytes at payload offset k * slot size
fn stub_check<T: RDH, C: ChecksOpt + FilterOpt + CustomChecksOpt>(_v: &mut CdpRunningValidator<T, C>, gbt_word: &[u8]) {
    unsafe {
        if gbt_word.len() != 10 || gbt_word.as_ptr() as usize != CK.base + CK.calls as usize * CK.stride {
            CK.order_ok = false;
        }
        CK.calls += 1;
    }
}

// @harness id=bnd40_do_payload_checks_ok props=C12,C01,C07,C04 kind=bnd tier=quick bound=payload<=40B fns=do_payload_checks,preprocess_payload,CdpRunningValidator::set_current_rdh stubs=alloc::fmt::format,flume::Sender::send,CdpRunningValidator::check
// Every word of an accepted payload is handed to the validator exactly once, in order, as the 10 bytes at
// its slot; padding is never a word.
#[kani::proof]
#[kani::stub(alloc::fmt::format, stub_format_nonempty)]
#[kani::stub(flume::Sender::send, stub_send)]
#[kani::stub(CdpRunningValidator::check, stub_check)]
#[kani::unwind(42)]
fn bnd40_do_payload_checks_ok() {
    do_payload_checks_case::<40>(false);
}

// @harness id=bnd40_do_payload_checks_err props=C12,C02,C04 kind=bnd tier=quick bound=payload<=40B fns=do_payload_checks,preprocess_payload,CdpRunningValidator::reset_fsm stubs=alloc::fmt::format,flume::Sender::send,CdpRunningValidator::check
// A payload ending in more than 15 bytes of 0xFF is reported once (at the RDH offset), no word is examined
// and the protocol state is reset to the initial state.
#[kani::proof]
#[kani::stub(alloc::fmt::format, stub_format_nonempty)]
#[kani::stub(flume::Sender::send, stub_send)]
#[kani::stub(CdpRunningValidator::check, stub_check)]
#[kani::unwind(42)]
fn bnd40_do_payload_checks_err() {
    do_payload_checks_case::<40>(true);
}

fn do_payload_checks_case<const N: usize>(error_path: bool) {
    let rb: [u8; 64] = kani::any();
    let rdh = RdhCru::from_buf(&rb[..]).unwrap();
    let s = fake_sender();
    // validator whose FSM is in the middle of a split packet (state c_IHW), i.e. not the initial state
    let mut v = crate::analyze::validators::its::cdp_running::verif_cdp_running::validator_in(5, true, None, &rb, 64, 0);
    unsafe { CK.calls = 0; CK.order_ok = true; }
    let data: [u8; N] = kani::any();
    let len: usize = kani::any();
    kani::assume(len >= 1 && len <= N);
    let p = &data[..len];
    // trailing 0xFF run
    let mut run = 0;
    while run < len && p[len - 1 - run] == 0xFF {
        run += 1;
    }
    let v0 = len >= 16 && p[10] == 0 && p[11] == 0 && p[12] == 0 && p[13] == 0 && p[14] == 0 && p[15] == 0;
    kani::assume((run > 15) == error_path);
    // slot-aligned payloads only: a payload whose length is not a whole number of slots (after the padding rule)
    // trips debug_assert!s in chunkify_payload. Kani builds with debug assertions; the shipped binary (release
    // profile, C04 `state`) has none, so those are not obligations of C04. Unaligned lengths: full_chunkify.
    kani::assume(error_path || (if v0 { len % 16 == 0 } else if run > 9 { (len - run) % 10 == 0 } else { len % 10 <= run }));
    unsafe { CK.base = p.as_ptr() as usize; CK.stride = if v0 { 16 } else { 10 }; }
    let pos: u64 = kani::any();
    kani::assume(pos < (1 << 62));
    let r = do_payload_checks((&rdh, p, pos), &s, &mut v);
    assert!(r.is_ok(), "[C12] payload checks do not fail the link");
    let calls = unsafe { CK.calls } as usize;
    if run > 15 {
        assert!(calls == 0, "[C12] a payload ending in more than 15 bytes of 0xFF is skipped: no word is examined");
        assert!(sent_errors() == 1 && sent_total() == 1, "[C12][C02] the over-long padding is reported exactly once");
        assert!(crate::analyze::validators::its::cdp_running::verif_cdp_running::fsm_state_of(&v) == Q::Ihw, "[C12] the protocol state is reset so the next packet is judged from the initial state");
    } else {
        assert!(sent_total() == 0, "[C12][C01] an accepted payload is not reported by the chunking stage");
        let expect = if v0 { len / 16 } else if run > 9 { (len - run) / 10 } else { len / 10 };
        assert!(calls == expect, "[C12] every word is examined exactly once; padding is never a word");
        assert!(unsafe { CK.order_ok }, "[C12][C07] the k-th word examined is the 10 bytes at slot k of the payload");
    }
    kani::cover!(calls == 3 || error_path);
    core::mem::forget(v);
    core::mem::forget(s);
}


// @harness id=bnd64_do_payload_checks_ok props=C12,C01,C07,C04 kind=bnd tier=thorough bound=payload<=64B fns=do_payload_checks,preprocess_payload,CdpRunningValidator::set_current_rdh stubs=alloc::fmt::format,flume::Sender::send,CdpRunningValidator::check
#[kani::proof]
#[kani::stub(alloc::fmt::format, stub_format_nonempty)]
#[kani::stub(flume::Sender::send, stub_send)]
#[kani::stub(CdpRunningValidator::check, stub_check)]
#[kani::unwind(66)]
fn bnd64_do_payload_checks_ok() {
    do_payload_checks_case::<64>(false);
}

// @harness id=bnd64_do_payload_checks_err props=C12,C02,C04 kind=bnd tier=thorough bound=payload<=64B fns=do_payload_checks,preprocess_payload,CdpRunningValidator::reset_fsm stubs=alloc::fmt::format,flume::Sender::send,CdpRunningValidator::check
#[kani::proof]
#[kani::stub(alloc::fmt::format, stub_format_nonempty)]
#[kani::stub(flume::Sender::send, stub_send)]
#[kani::stub(CdpRunningValidator::check, stub_check)]
#[kani::unwind(66)]
fn bnd64_do_payload_checks_err() {
    do_payload_checks_case::<64>(true);
}
