// Contracts for fastpasta/src/analyze/validators/rdh_running.rs
#![allow(dead_code, unused_results, clippy::all)]
use super::*;
use crate::verif_support::*;

fn rdh_from(b: &[u8; 64]) -> RdhCru {
    RdhCru::from_buf(&b[..]).unwrap()
}

/// Arbitrary checker state consistent with `n` headers already seen (n = 0, 1, >= 2).
fn any_state(n: u8, last: &[u8; 64], expect_pc: u16, incr: u16) -> RdhCruRunningChecker<RdhCru> {
    let mut c = RdhCruRunningChecker::<RdhCru>::new();
    if n >= 1 {
        c.first_rdh_cru = Some(rdh_from(last));
        c.last_rdh_cru = Some(rdh_from(last));
        c.expect_pages_counter = expect_pc;
    }
    if n >= 2 {
        c.second_rdh_cru = Some(rdh_from(last));
        c.expect_pages_counter_increment = incr;
    }
    c
}

// @harness id=full_running_step props=C10,C01,C02,C04 kind=full tier=quick fns=RdhCruRunningChecker::check,RdhCruRunningChecker::check_stop_bit_and_page_counter,RdhCruRunningChecker::check_orbit_counter_changes,RdhCruRunningChecker::check_orbit_trigger_det_field_feeid_same_when_page_not_0,RdhCruRunningChecker::new stubs=core::fmt::write,alloc::fmt::format
// One step from an arbitrary state on an arbitrary RDH == the documented running rules.
#[kani::proof]
#[kani::stub(core::fmt::write, stub_fmt_write)]
#[kani::stub(alloc::fmt::format, stub_format_nonempty)]
fn full_running_step() {
    let n: u8 = kani::any();
    kani::assume(n <= 2);
    let last: [u8; 64] = kani::any();
    let expect_pc: u16 = kani::any();
    let incr: u16 = kani::any();
    let mut c = any_state(n, &last, expect_pc, incr);
    let exp_pc = c.expect_pages_counter;
    let b: [u8; 64] = kani::any();
    // increment in force for this step: 1 until the second header, whose page counter is then learnt
    let incr_now: u16 = if n == 0 { 1 } else if n == 1 { s_pages_counter(&b) } else { incr };
    // machine arithmetic: the expected page counter must not wrap (see finding F7)
    kani::assume(s_stop_bit(&b) != 0 || (exp_pc as u32 + incr_now as u32) <= u16::MAX as u32);

    let r = c.check(&rdh_from(&b));

    let stop = s_stop_bit(&b);
    let pc = s_pages_counter(&b);
    let viol_pc = stop > 1 || pc != exp_pc;
    let viol_orbit_after_stop = n >= 1 && s_stop_bit(&last) == 1 && s_orbit(&last) == s_orbit(&b);
    let viol_same_hbf = n >= 1
        && pc != 0
        && (s_orbit(&b) != s_orbit(&last)
            || s_trigger_type(&b) != s_trigger_type(&last)
            || s_fee_id(&b) != s_fee_id(&last));
    let viol = viol_pc || viol_orbit_after_stop || viol_same_hbf;
    assert!(!(r.is_err() && !viol), "[C10][C01] RDH consistent with the page-counter/stop-bit/orbit/same-HBF rules is not reported");
    assert!(!(r.is_ok() && viol), "[C10][C02] RDH violating a running rule is reported");
    // successor state
    let next_pc = if stop == 0 { exp_pc + incr_now } else if stop == 1 { 0 } else { exp_pc };
    assert!(c.expect_pages_counter == next_pc, "[C10] expected page counter: +increment when stop_bit==0, reset to 0 when stop_bit==1");
    assert!(c.expect_pages_counter_increment == incr_now, "[C10] page-counter increment is fixed by the second header");
    assert!(c.last_rdh_cru.as_ref().unwrap().to_byte_slice() == &b[..], "[C10] the current header becomes the previous header");
    assert!(c.first_rdh_cru.is_some() && (n == 0 || c.second_rdh_cru.is_some()), "[C10] header count advances");
    kani::cover!(r.is_ok() && n == 2);
    kani::cover!(r.is_err() && n == 0);
    kani::cover!(viol_orbit_after_stop && !viol_pc && !viol_same_hbf);
}

// @harness id=full_running_hbf_start props=C10,C01 kind=full tier=quick fns=RdhCruRunningChecker::check,RdhCruRunningChecker::new stubs=core::fmt::write,alloc::fmt::format
// A history that begins at an HBF start (pages 0 then 1, stop bits 0) learns increment 1 and
// reports nothing for those two headers when they agree on orbit/trigger/FEE id.
#[kani::proof]
#[kani::stub(core::fmt::write, stub_fmt_write)]
#[kani::stub(alloc::fmt::format, stub_format_nonempty)]
fn full_running_hbf_start() {
    let mut c = RdhCruRunningChecker::<RdhCru>::new();
    let b0: [u8; 64] = kani::any();
    let b1: [u8; 64] = kani::any();
    kani::assume(s_pages_counter(&b0) == 0 && s_stop_bit(&b0) == 0);
    kani::assume(s_pages_counter(&b1) == 1 && s_stop_bit(&b1) == 0);
    kani::assume(s_orbit(&b0) == s_orbit(&b1) && s_trigger_type(&b0) == s_trigger_type(&b1) && s_fee_id(&b0) == s_fee_id(&b1));
    let r0 = c.check(&rdh_from(&b0));
    let r1 = c.check(&rdh_from(&b1));
    assert!(r0.is_ok() && r1.is_ok(), "[C10][C01] the first two pages of an HBF are accepted");
    assert!(c.expect_pages_counter_increment == 1 && c.expect_pages_counter == 2, "[C10] increment 1 is learnt from an HBF start");
}

// @harness id=neg_running_step props=C10 kind=neg tier=quick expect=fail fns=RdhCruRunningChecker::check
#[kani::proof]
#[kani::stub(core::fmt::write, stub_fmt_write)]
#[kani::stub(alloc::fmt::format, stub_format_nonempty)]
fn neg_running_step() {
    let last: [u8; 64] = kani::any();
    let mut c = any_state(2, &last, 5, 1);
    let b: [u8; 64] = kani::any();
    kani::assume(s_stop_bit(&b) == 1);
    let r = c.check(&rdh_from(&b));
    // deliberately false: detector field changes are only a warning, not an error
    assert!(!(r.is_ok() && s_pages_counter(&b) != 0 && s_detector_field(&b) != s_detector_field(&last)), "[NEG] deliberately false");
}

// @harness id=full_running_nopanic props=C04 kind=full tier=quick fns=RdhCruRunningChecker::check stubs=core::fmt::write,alloc::fmt::format
// No precondition at all: any checker state, any header (exposes machine-arithmetic wrap of the page counter).
#[kani::proof]
#[kani::stub(core::fmt::write, stub_fmt_write)]
#[kani::stub(alloc::fmt::format, stub_format_nonempty)]
#[kani::unwind(4)]
fn full_running_nopanic() {
    let n: u8 = kani::any();
    kani::assume(n <= 2);
    let last: [u8; 64] = kani::any();
    let mut c = any_state(n, &last, kani::any(), kani::any());
    let b: [u8; 64] = kani::any();
    let _ = c.check(&rdh_from(&b));
}
