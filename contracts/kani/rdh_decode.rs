// Contracts for alice_protocol_reader/src/rdh.rs, rdh/rdh_cru.rs, rdh/rdh{0,1,2,3}.rs
#![allow(dead_code, unused_results, clippy::all)]
use super::*;
use crate::verif_apr_support::*;

// @harness id=full_rdh_decode props=C03,C19,C10,C04 kind=full tier=quick fns=RdhCru::from_buf,RdhCru::from_rdh0_and_buf,Rdh0::from_buf,Rdh1::from_buf,Rdh2::from_buf,Rdh3::from_buf,RdhCru::link_id,RdhCru::fee_id,RdhCru::offset_to_next,RdhCru::stop_bit,RdhCru::pages_counter,RdhCru::data_format,RdhCru::trigger_type,RdhCru::version,RdhCru::cru_id,RdhCru::dw,RdhCru::packet_counter,Rdh1::bc,Rdh1::reserved0
// Every accessor of the decoded header equals the little-endian field at its documented byte offset.
#[kani::proof]
fn full_rdh_decode() {
    let b: [u8; 64] = kani::any();
    let r = RdhCru::from_buf(&b[..]).unwrap();
    assert!(r.version() == b[0], "[C03] header id / version is byte 0");
    assert!(r.rdh0().header_size == b[1], "[C03] header size is byte 1");
    assert!(r.fee_id() == le16(&b, 2) && r.rdh0().fee_id() == le16(&b, 2), "[C03] FEE id is bytes 2..4");
    assert!(r.rdh0().priority_bit == b[4], "[C03] priority bit is byte 4");
    assert!(r.rdh0().system_id == b[5], "[C03] system id is byte 5");
    let res0 = r.rdh0().reserved0;
    assert!(res0 == le16(&b, 6), "[C03] RDH0 reserved is bytes 6..8");
    assert!(r.offset_to_next() == le16(&b, 8), "[C03] offset to next is bytes 8..10");
    let ms = r.memory_size;
    assert!(ms == le16(&b, 10), "[C03] memory size is bytes 10..12");
    assert!(r.link_id() == b[12], "[C03] link id is byte 12");
    assert!(r.packet_counter() == b[13], "[C03] packet counter is byte 13");
    assert!(r.cru_id() == le16(&b, 14) & 0x0FFF, "[C03] CRU id is bits 11:0 of bytes 14..16");
    assert!(r.dw() == (le16(&b, 14) >> 12) as u8, "[C03] DW is bits 15:12 of bytes 14..16");
    assert!(r.rdh1().bc() == (le32(&b, 16) & 0xFFF) as u16, "[C03] BC is bits 11:0 of bytes 16..20");
    assert!(r.rdh1().reserved0() == le32(&b, 16) >> 12, "[C03] RDH1 reserved is bits 31:12 of bytes 16..20");
    let orbit = r.rdh1().orbit;
    assert!(orbit == le32(&b, 20), "[C03] orbit is bytes 20..24");
    assert!(RDH_CRU::data_format(&r) == b[24], "[C03] data format is byte 24");
    assert!(r.reserved0() == le64(&b, 24) >> 8, "[C03] CRU reserved0 is bytes 25..32");
    assert!(r.trigger_type() == le32(&b, 32), "[C03] trigger type is bytes 32..36");
    assert!(r.pages_counter() == le16(&b, 36), "[C03] pages counter is bytes 36..38");
    assert!(r.stop_bit() == b[38], "[C03] stop bit is byte 38");
    assert!(r.rdh2().reserved0 == b[39], "[C03] RDH2 reserved is byte 39");
    assert!(r.reserved1() == le64(&b, 40), "[C03] CRU reserved1 is bytes 40..48");
    let df = r.rdh3().detector_field;
    let par = r.rdh3().par_bit;
    let r3 = r.rdh3().reserved0;
    assert!(df == le32(&b, 48), "[C03] detector field is bytes 48..52");
    assert!(par == le16(&b, 52), "[C03] par bit is bytes 52..54");
    assert!(r3 == le16(&b, 54), "[C03] RDH3 reserved is bytes 54..56");
    assert!(r.reserved2() == le64(&b, 56), "[C03] CRU reserved2 is bytes 56..64");
    assert!(r.rdh2().is_pht_trigger() == ((le32(&b, 32) >> 4) & 1 == 1), "[C03][C14] PhT trigger is bit 4 of the trigger type");
}

// @harness id=full_rdh_roundtrip props=C08,C03,C04 kind=full tier=quick fns=ByteSlice::to_byte_slice,any_as_u8_slice,RdhCru::from_buf,RdhCru::load,RdhCru::load_from_rdh0,Rdh0::load
// serialise(parse(b)) == b for all 2^512 headers (exercises the unsafe reinterpretation).
#[kani::proof]
fn full_rdh_roundtrip() {
    let b: [u8; 64] = kani::any();
    let r = RdhCru::from_buf(&b[..]).unwrap();
    let s = r.to_byte_slice();
    assert!(s.len() == 64, "[C08] a serialised header is 64 bytes");
    assert!(s == &b[..], "[C08] re-serialising a parsed header reproduces its 64 bytes");
    // load (reader based) == from_buf; load_from_rdh0 (first header of the input) likewise
    let l = RdhCru::load(&mut &b[..]).unwrap();
    assert!(l.to_byte_slice() == &b[..], "[C03][C08] load from a reader decodes the same 64 bytes");
    let rdh0 = Rdh0::load(&mut &b[..8]).unwrap();
    let l0 = RdhCru::load_from_rdh0(&mut &b[8..], rdh0).unwrap();
    assert!(l0.to_byte_slice() == &b[..], "[C03][C08] load from a pre-read RDH0 decodes the same 64 bytes");
}

// @harness id=full_payload_size props=C03,C04 kind=full tier=quick fns=RdhCru::payload_size
#[kani::proof]
fn full_payload_size() {
    let b: [u8; 64] = kani::any();
    kani::assume(le16(&b, 10) >= 64);
    let r = RdhCru::from_buf(&b[..]).unwrap();
    assert!(r.payload_size() == le16(&b, 10) - 64, "[C03] payload size is the memory size minus the 64 header bytes");
}

// @harness id=full_load_eof props=C18,C04 kind=full tier=quick fns=RdhCru::load,load_bytes
// A header cut short anywhere is UnexpectedEof, never a partial header.
#[kani::proof]
#[kani::unwind(3)]
fn full_load_eof() {
    let b: [u8; 64] = kani::any();
    let n: usize = kani::any();
    kani::assume(n < 64);
    let r = RdhCru::load(&mut &b[..n]);
    assert!(r.is_err(), "[C18] a header cut after fewer than 64 bytes is not decoded");
    assert!(r.err().unwrap().kind() == std::io::ErrorKind::UnexpectedEof, "[C18] truncated header is reported as UnexpectedEof");
}

// @harness id=full_payload_size_nopanic props=C04 kind=full tier=quick fns=RdhCru::payload_size
// No precondition: memory_size is any u16 (values below 64 occur in corrupted data).
#[kani::proof]
fn full_payload_size_nopanic() {
    let b: [u8; 64] = kani::any();
    let r = RdhCru::from_buf(&b[..]).unwrap();
    let _ = r.payload_size();
}
