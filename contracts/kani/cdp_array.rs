// Contracts for alice_protocol_reader/src/cdp_wrapper/cdp_array.rs: what every Verus unit assumes of a batch -
// a CdpArray is the sequence of (header, payload, offset) triples pushed into it, in push order, for every accessor.
#![allow(dead_code, unused_results, clippy::all)]
use super::*;
use crate::prelude::RdhCru;
use crate::rdh::{SerdeRdh, RDH, RDH_CRU};
use crate::verif_apr_support::*;

// @harness id=bnd_cdp_array_order props=C03,C06,C08,C19,C04 kind=bnd tier=quick bound=CAP=2,payload<=2B fns=CdpArray::new_const,CdpArray::push,CdpArray::len,CdpArray::is_empty,CdpArray::iter,CdpArray::rdh_slice,CdpArray::rdh_mem_pos_slice,CdpArrayIter::next
// Two pushes with arbitrary header identities (FEE id, link id), payload lengths 0..=2 and offsets: the borrowing
// iterator, the slices and len/is_empty agree with the push order.
#[kani::proof]
#[kani::unwind(4)]
fn bnd_cdp_array_order() {
    let mut b0 = [0u8; 64];
    let mut b1 = [0u8; 64];
    b0[2] = kani::any();
    b0[12] = kani::any();
    b1[2] = kani::any();
    b1[12] = kani::any();
    let r0 = RdhCru::from_buf(&b0[..]).unwrap();
    let r1 = RdhCru::from_buf(&b1[..]).unwrap();
    let n0: usize = kani::any();
    let n1: usize = kani::any();
    kani::assume(n0 <= 2 && n1 <= 2);
    let v0: u8 = kani::any();
    let v1: u8 = kani::any();
    let p0 = vec![v0; n0];
    let p1 = vec![v1; n1];
    let m0: u64 = kani::any();
    let m1: u64 = kani::any();
    let mut a = CdpArray::<RdhCru, 2>::new_const();
    assert!(a.is_empty() && a.len() == 0, "[C03] a new batch is empty");
    a.push(r0, p0, m0);
    assert!(!a.is_empty() && a.len() == 1, "[C03] one packet after one push");
    a.push(r1, p1, m1);
    assert!(a.len() == 2, "[C03][C08] every push adds exactly one packet");
    assert!(a.rdh_mem_pos_slice().len() == 2 && a.rdh_mem_pos_slice()[0] == m0 && a.rdh_mem_pos_slice()[1] == m1, "[C03][C07] offsets in push order");
    assert!(a.rdh_slice().len() == 2 && a.rdh_slice()[0].link_id() == b0[12] && a.rdh_slice()[1].link_id() == b1[12], "[C03][C06] headers in push order");
    let mut it = a.iter();
    let (h, p, m) = it.next().unwrap();
    assert!(h.link_id() == b0[12] && h.fee_id() == s_fee_id(&b0) && m == m0 && p.len() == n0 && (n0 == 0 || p[0] == v0), "[C03][C06][C08][C19] the first packet comes first, with its own payload and offset");
    let (h, p, m) = it.next().unwrap();
    assert!(h.link_id() == b1[12] && h.fee_id() == s_fee_id(&b1) && m == m1 && p.len() == n1 && (n1 == 0 || p[n1 - 1] == v1), "[C03][C06][C08][C19] then the second, with its own payload and offset");
    assert!(it.next().is_none(), "[C03][C08] and nothing else");
}

// The consuming iterator (`into_iter`: zip / zip / map / collect over three arrayvec IntoIters) ran CBMC out of its 12 GB
// cap even for two packets with empty payloads; it is read, not proved: it zips the three vectors in index order.
