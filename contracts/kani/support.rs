// Shared verification support for the fastpasta crate (compiled only under cfg(kani)).
// Attached at the end of fastpasta/src/lib.rs as `pub mod verif_support`.
//
// Contains: standard stubs (formatting, channel send), the send recorder, and the
// specification functions (written from properties.jsonl / doc/checks_list.md /
// doc/ITS_payload_fsm_continuous_mode.puml, NOT from the code).
#![allow(dead_code, missing_docs, unused_results, clippy::all)]

use crate::stats::StatType;

// ------------------------------------------------------------------ stubs

/// Stub for `core::fmt::write`: keeps "something was written", drops the text.
/// Text is never part of a proved postcondition.
pub fn stub_fmt_write(
    output: &mut dyn core::fmt::Write,
    _args: core::fmt::Arguments<'_>,
) -> core::fmt::Result {
    output.write_str("?")
}

// Recorder for `flume::Sender<StatType>::send`
// All recorder state lives in ONE static with a unique marker field. Kani 0.68 was found to place a
// zero-initialised 8-byte `static mut` in the same allocation as the std constant `RawVec::ZERO_CAP`
// (minimal reproduction in DESIGN.md §2): writing the static then changes the capacity of every `Vec::new()`.
// A struct whose initial bytes are unique cannot coincide with any constant allocation.
pub struct Recorder {
    pub marker: u64,
    pub total: u32,
    pub errors: u32,
    pub fatal: u32,
    pub other: u32,
    pub err_nonempty: bool,
    pub layer_stave: u32,
    pub last_layer_stave: (u8, u8),
    pub last_msg: [u8; 24],
    pub last_msg_len: usize,
}
pub static mut REC: Recorder = Recorder {
    marker: 0x5EED_0000_0000_0001,
    total: 0,
    errors: 0,
    fatal: 0,
    other: 0,
    err_nonempty: true,
    layer_stave: 0,
    last_layer_stave: (0, 0),
    last_msg: [0; 24],
    last_msg_len: 0,
};

pub fn stub_send<T>(_s: &flume::Sender<T>, msg: T) -> Result<(), flume::SendError<T>> {
    // Every Sender reached from fastpasta harnesses carries StatType.
    assert!(core::mem::size_of::<T>() == core::mem::size_of::<StatType>());
    let st: &StatType = unsafe { &*(&msg as *const T as *const StatType) };
    unsafe {
        REC.total += 1;
        match st {
            StatType::Error(m) => {
                REC.errors += 1;
                if m.is_empty() {
                    REC.err_nonempty = false;
                }
            }
            StatType::Fatal(_) => REC.fatal += 1,
            StatType::LayerStaveSeen { layer, stave } => {
                REC.layer_stave += 1;
                REC.last_layer_stave = (*layer, *stave);
                REC.other += 1;
            }
            _ => REC.other += 1,
        }
    }
    Ok(())
}

pub fn sent_errors() -> u32 {
    unsafe { REC.errors }
}
pub fn sent_total() -> u32 {
    unsafe { REC.total }
}
pub fn sent_fatal() -> u32 {
    unsafe { REC.fatal }
}

/// A `Sender` that is never dereferenced (send is stubbed); must be `mem::forget`-ed.
pub fn fake_sender() -> flume::Sender<StatType> {
    unsafe { core::mem::transmute::<usize, flume::Sender<StatType>>(0x1000) }
}

// ------------------------------------------------------------------ spec: 80-bit words

/// 80-bit word as little-endian u128
pub fn w80(b: &[u8; 10]) -> u128 {
    u128::from_le_bytes([
        b[0], b[1], b[2], b[3], b[4], b[5], b[6], b[7], b[8], b[9], 0, 0, 0, 0, 0, 0,
    ])
}
pub fn bits(v: u128, hi: u32, lo: u32) -> u128 {
    (v >> lo) & ((1u128 << (hi - lo + 1)) - 1)
}

pub const ID_IHW: u8 = 0xE0;
pub const ID_TDH: u8 = 0xE8;
pub const ID_TDT: u8 = 0xF0;
pub const ID_DDW0: u8 = 0xE4;
pub const ID_CDW: u8 = 0xF8;

// Reserved-bit masks over the 80-bit word (ITS data-format documentation as quoted in the
// struct comments / checks_list.md "reserved == 0").
// IHW: 27:0 active lanes, 71:28 reserved, 79:72 id
pub const IHW_RESERVED: u128 = ((1u128 << 72) - 1) & !((1u128 << 28) - 1);
// TDH: 11:0 trigger type, 12 internal, 13 no_data, 14 continuation, 15 reserved,
//      27:16 bc, 31:28 reserved, 63:32 orbit, 71:64 reserved
pub const TDH_RESERVED: u128 = (1u128 << 15) | (0xFu128 << 28) | (0xFFu128 << 64);
// TDT: 55:0 lane status, 60:56 reserved, 61..63 timeouts, 64 packet_done, 65 transmission
//      timeout, 66 reserved, 67 lane_starts_violation, 71:68 reserved
pub const TDT_RESERVED: u128 = (0x1Fu128 << 56) | (1u128 << 66) | (0xFu128 << 68);
// DDW0: 55:0 lane status, 63:56 reserved, 64 reserved, 65 transmission timeout, 66 reserved,
//       67 lane_starts_violation, 71:68 index
pub const DDW0_RESERVED: u128 = (0xFFu128 << 56) | (1u128 << 64) | (1u128 << 66);

pub fn spec_ihw_sane(b: &[u8; 10]) -> bool {
    b[9] == ID_IHW && (w80(b) & IHW_RESERVED) == 0
}
pub fn spec_tdh_sane(b: &[u8; 10]) -> bool {
    let v = w80(b);
    b[9] == ID_TDH && (v & TDH_RESERVED) == 0 && (bits(v, 11, 0) != 0 || bits(v, 12, 12) != 0)
}
pub fn spec_tdt_sane(b: &[u8; 10]) -> bool {
    b[9] == ID_TDT && (w80(b) & TDT_RESERVED) == 0
}
pub fn spec_ddw0_sane(b: &[u8; 10]) -> bool {
    let v = w80(b);
    b[9] == ID_DDW0 && (v & DDW0_RESERVED) == 0 && bits(v, 71, 68) == 0
}

/// Valid data word identifiers: IL 0x20..=0x28, ML/OL 0x40..=0x46, 0x48..=0x4E, 0x50..=0x56, 0x58..=0x5E
pub fn spec_data_id_valid(id: u8) -> bool {
    (0x20..=0x28).contains(&id)
        || (0x40..=0x46).contains(&id)
        || (0x48..=0x4E).contains(&id)
        || (0x50..=0x56).contains(&id)
        || (0x58..=0x5E).contains(&id)
}
pub fn spec_is_ib_id(id: u8) -> bool {
    id >> 5 == 0b001
}
pub fn spec_is_ob_id(id: u8) -> bool {
    id >> 5 == 0b010
}
/// IB lane = 5 LSB of the id
pub fn spec_ib_lane(id: u8) -> u8 {
    id & 0x1F
}
/// OB: connector = bits 4:3, input = bits 2:0; lane = 7*connector + input
pub fn spec_ob_connector(id: u8) -> u8 {
    (id >> 3) & 0b11
}
pub fn spec_ob_input(id: u8) -> u8 {
    id & 0b111
}
pub fn spec_ob_lane(id: u8) -> u8 {
    7 * spec_ob_connector(id) + spec_ob_input(id)
}

// ------------------------------------------------------------------ spec: payload FSM

/// Abstract states of doc/ITS_payload_fsm_continuous_mode.puml
#[derive(Clone, Copy, PartialEq, Eq, Debug)]
pub enum Q {
    Ihw,
    Tdh,
    /// choice after a TDH with no_data == 1: TDH / DDW0 / IHW
    AfterTdhNoData,
    /// Data / after_Data choice: data word / TDT (/ CDW per checks_list.md)
    Data,
    /// choice after a TDT with packet_done == 1: TDH / DDW0 / IHW
    AfterTdtDone,
    CIhw,
    CTdh,
    CData,
}

/// Word class the diagram prescribes
#[derive(Clone, Copy, PartialEq, Eq, Debug)]
pub enum Cls {
    Ihw,
    IhwCont,
    Tdh,
    TdhCont,
    TdhAfterDone,
    Tdt,
    Cdw,
    Data,
    Ddw0,
    /// not legal in this (choice) state
    Illegal,
}

pub fn spec_no_data(b: &[u8; 10]) -> bool {
    bits(w80(b), 13, 13) == 1
}
pub fn spec_packet_done(b: &[u8; 10]) -> bool {
    bits(w80(b), 64, 64) == 1
}

/// (class, Some(successor)) — successor None = not prescribed (after an illegal word)
pub fn spec_step(q: Q, b: &[u8; 10]) -> (Cls, Option<Q>) {
    let id = b[9];
    match q {
        Q::Ihw => (Cls::Ihw, Some(Q::Tdh)),
        Q::Tdh => (
            Cls::Tdh,
            Some(if spec_no_data(b) { Q::AfterTdhNoData } else { Q::Data }),
        ),
        Q::AfterTdhNoData | Q::AfterTdtDone => {
            if id == ID_TDH {
                (
                    Cls::TdhAfterDone,
                    Some(if spec_no_data(b) { Q::AfterTdhNoData } else { Q::Data }),
                )
            } else if id == ID_IHW {
                (Cls::Ihw, Some(Q::Tdh))
            } else if id == ID_DDW0 {
                (Cls::Ddw0, Some(Q::Ihw))
            } else {
                (Cls::Illegal, None)
            }
        }
        Q::Data | Q::CData => {
            if spec_data_id_valid(id) {
                (Cls::Data, Some(q))
            } else if id == ID_TDT {
                (
                    Cls::Tdt,
                    Some(if spec_packet_done(b) { Q::AfterTdtDone } else { Q::CIhw }),
                )
            } else if id == ID_CDW {
                (Cls::Cdw, Some(q))
            } else {
                (Cls::Illegal, None)
            }
        }
        Q::CIhw => (Cls::IhwCont, Some(Q::CTdh)),
        Q::CTdh => (Cls::TdhCont, Some(Q::CData)),
    }
}

/// Stub for `alloc::fmt::format`: an empty String (no heap allocation). Text is never part of a
/// proved postcondition; this removes the dominant CBMC cost on error paths.
pub fn stub_format(_args: core::fmt::Arguments<'_>) -> String {
    String::new()
}

// ------------------------------------------------------------------ spec: RDH (64 bytes, little endian)
// Independent decoding of the documented layout (RDH v6/v7):
//  0 header_id | 1 header_size | 2-3 fee_id | 4 priority | 5 system_id | 6-7 reserved
//  8-9 offset_to_next | 10-11 memory_size | 12 link_id | 13 packet_counter | 14-15 cru_id[11:0] dw[15:12]
//  16-19 bc[11:0] reserved[31:12] | 20-23 orbit | 24 data_format | 25-31 reserved
//  32-35 trigger_type | 36-37 pages_counter | 38 stop_bit | 39 reserved | 40-47 reserved
//  48-51 detector_field | 52-53 par_bit | 54-55 reserved | 56-63 reserved
pub fn le16(b: &[u8; 64], i: usize) -> u16 {
    u16::from_le_bytes([b[i], b[i + 1]])
}
pub fn le32(b: &[u8; 64], i: usize) -> u32 {
    u32::from_le_bytes([b[i], b[i + 1], b[i + 2], b[i + 3]])
}
pub fn le64(b: &[u8; 64], i: usize) -> u64 {
    u64::from_le_bytes([b[i], b[i + 1], b[i + 2], b[i + 3], b[i + 4], b[i + 5], b[i + 6], b[i + 7]])
}
pub fn s_header_id(b: &[u8; 64]) -> u8 { b[0] }
pub fn s_header_size(b: &[u8; 64]) -> u8 { b[1] }
pub fn s_fee_id(b: &[u8; 64]) -> u16 { le16(b, 2) }
pub fn s_priority(b: &[u8; 64]) -> u8 { b[4] }
pub fn s_system_id(b: &[u8; 64]) -> u8 { b[5] }
pub fn s_offset_to_next(b: &[u8; 64]) -> u16 { le16(b, 8) }
pub fn s_memory_size(b: &[u8; 64]) -> u16 { le16(b, 10) }
pub fn s_link_id(b: &[u8; 64]) -> u8 { b[12] }
pub fn s_packet_counter(b: &[u8; 64]) -> u8 { b[13] }
pub fn s_cru_id(b: &[u8; 64]) -> u16 { le16(b, 14) & 0x0FFF }
pub fn s_dw(b: &[u8; 64]) -> u8 { (le16(b, 14) >> 12) as u8 }
pub fn s_bc(b: &[u8; 64]) -> u16 { (le32(b, 16) & 0xFFF) as u16 }
pub fn s_orbit(b: &[u8; 64]) -> u32 { le32(b, 20) }
pub fn s_data_format(b: &[u8; 64]) -> u8 { b[24] }
pub fn s_trigger_type(b: &[u8; 64]) -> u32 { le32(b, 32) }
pub fn s_pages_counter(b: &[u8; 64]) -> u16 { le16(b, 36) }
pub fn s_stop_bit(b: &[u8; 64]) -> u8 { b[38] }
pub fn s_detector_field(b: &[u8; 64]) -> u32 { le32(b, 48) }
pub fn s_par_bit(b: &[u8; 64]) -> u16 { le16(b, 52) }
pub fn s_layer(fee: u16) -> u8 { ((fee >> 12) & 0b111) as u8 }
pub fn s_stave(fee: u16) -> u8 { (fee & 0x3F) as u8 }

/// doc/checks_list.md "RDH sanity check" (+ ITS system id when an ITS target is selected).
/// `expect_header_id`: the header id the validator compares against (first one seen, or the
/// user-configured RDH version). BC boundary: 0xDEB is the last legal bunch crossing.
pub fn spec_rdh_sane(b: &[u8; 64], expect_header_id: u8, its: bool) -> bool {
    let fee = s_fee_id(b);
    s_header_id(b) == expect_header_id
        && s_header_size(b) == 0x40
        && (fee & 0b1000_1100_1100_0000) == 0
        && s_stave(fee) <= 47
        && s_layer(fee) <= 6
        && s_priority(b) == 0
        && (!its || s_system_id(b) == 0x20)
        && le16(b, 6) == 0
        // RDH1
        && s_bc(b) <= 0xDEB
        && (le32(b, 16) >> 12) == 0
        // RDH2
        && s_stop_bit(b) <= 1
        && s_trigger_type(b) != 0
        && (s_trigger_type(b) & 0x07FF_8000) == 0
        && b[39] == 0
        // RDH3
        && le16(b, 54) == 0
        && (s_detector_field(b) & 0x00FF_F000) == 0
        && s_dw(b) <= 1
        && s_data_format(b) <= 2
}

/// Stub for `alloc::fmt::format` where the caller relies on the result being non-empty.
pub fn stub_format_nonempty(_args: core::fmt::Arguments<'_>) -> String {
    String::from("?")
}

// ------------------------------------------------------------------ message capture (sampled rendering checks)

/// like stub_send, additionally keeps the first 24 bytes of the last Error message
pub fn stub_send_capture<T>(s: &flume::Sender<T>, msg: T) -> Result<(), flume::SendError<T>> {
    {
        let st: &StatType = unsafe { &*(&msg as *const T as *const StatType) };
        if let StatType::Error(m) = st {
            let b = m.as_bytes();
            let n = if b.len() < 24 { b.len() } else { 24 };
            let mut i = 0;
            while i < n {
                unsafe { REC.last_msg[i] = b[i] };
                i += 1;
            }
            unsafe { REC.last_msg_len = n };
        }
    }
    stub_send(s, msg)
}

/// the message starts with `0x<UPPERCASE HEX OFFSET>: ` — the form the error sorter's regex `^0x[0-9A-F]+` parses
pub fn last_msg_starts_with(prefix: &[u8]) -> bool {
    let n = unsafe { REC.last_msg_len };
    if n < prefix.len() {
        return false;
    }
    let mut i = 0;
    while i < prefix.len() {
        if unsafe { REC.last_msg[i] } != prefix[i] {
            return false;
        }
        i += 1;
    }
    true
}
