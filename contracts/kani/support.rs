// Shared verification support for the fastpasta crate (compiled only under cfg(kani)).
// Attached at the end of fastpasta/src/lib.rs as `pub mod verif_support`.
//
// Contains: standard stubs (formatting, channel send), the send recorder, and the
// specification functions (written from properties.jsonl / doc/checks_list.md /
// doc/ITS_payload_fsm_continuous_mode.puml, NOT from the code).
#![allow(dead_code, missing_docs, unused_results, clippy::all)]

use crate::stats::StatType;

// ------------------------------------------------------------------ stubs

/// Stub for `core::fmt::write`: keeps "something was written", drops the text.
/// Text is never part of a proved postcondition.
pub fn stub_fmt_write(
    output: &mut dyn core::fmt::Write,
    _args: core::fmt::Arguments<'_>,
) -> core::fmt::Result {
    output.write_str("?")
}

// Recorder for `flume::Sender<StatType>::send`
pub static mut SENT_TOTAL: u32 = 0;
pub static mut SENT_ERRORS: u32 = 0;
pub static mut SENT_FATAL: u32 = 0;
pub static mut SENT_OTHER: u32 = 0;
pub static mut SENT_ERR_NONEMPTY: bool = true;

pub fn stub_send<T>(_s: &flume::Sender<T>, msg: T) -> Result<(), flume::SendError<T>> {
    // Every Sender reached from fastpasta harnesses carries StatType.
    assert!(core::mem::size_of::<T>() == core::mem::size_of::<StatType>());
    let st: &StatType = unsafe { &*(&msg as *const T as *const StatType) };
    unsafe {
        SENT_TOTAL += 1;
        match st {
            StatType::Error(m) => {
                SENT_ERRORS += 1;
                if m.is_empty() {
                    SENT_ERR_NONEMPTY = false;
                }
            }
            StatType::Fatal(_) => SENT_FATAL += 1,
            _ => SENT_OTHER += 1,
        }
    }
    Ok(())
}

pub fn sent_errors() -> u32 {
    unsafe { SENT_ERRORS }
}
pub fn sent_total() -> u32 {
    unsafe { SENT_TOTAL }
}
pub fn sent_fatal() -> u32 {
    unsafe { SENT_FATAL }
}

/// A `Sender` that is never dereferenced (send is stubbed); must be `mem::forget`-ed.
pub fn fake_sender() -> flume::Sender<StatType> {
    unsafe { core::mem::transmute::<usize, flume::Sender<StatType>>(0x1000) }
}

// ------------------------------------------------------------------ spec: 80-bit words

/// 80-bit word as little-endian u128
pub fn w80(b: &[u8; 10]) -> u128 {
    u128::from_le_bytes([
        b[0], b[1], b[2], b[3], b[4], b[5], b[6], b[7], b[8], b[9], 0, 0, 0, 0, 0, 0,
    ])
}
pub fn bits(v: u128, hi: u32, lo: u32) -> u128 {
    (v >> lo) & ((1u128 << (hi - lo + 1)) - 1)
}

pub const ID_IHW: u8 = 0xE0;
pub const ID_TDH: u8 = 0xE8;
pub const ID_TDT: u8 = 0xF0;
pub const ID_DDW0: u8 = 0xE4;
pub const ID_CDW: u8 = 0xF8;

// Reserved-bit masks over the 80-bit word (ITS data-format documentation as quoted in the
// struct comments / checks_list.md "reserved == 0").
// IHW: 27:0 active lanes, 71:28 reserved, 79:72 id
pub const IHW_RESERVED: u128 = ((1u128 << 72) - 1) & !((1u128 << 28) - 1);
// TDH: 11:0 trigger type, 12 internal, 13 no_data, 14 continuation, 15 reserved,
//      27:16 bc, 31:28 reserved, 63:32 orbit, 71:64 reserved
pub const TDH_RESERVED: u128 = (1u128 << 15) | (0xFu128 << 28) | (0xFFu128 << 64);
// TDT: 55:0 lane status, 60:56 reserved, 61..63 timeouts, 64 packet_done, 65 transmission
//      timeout, 66 reserved, 67 lane_starts_violation, 71:68 reserved
pub const TDT_RESERVED: u128 = (0x1Fu128 << 56) | (1u128 << 66) | (0xFu128 << 68);
// DDW0: 55:0 lane status, 63:56 reserved, 64 reserved, 65 transmission timeout, 66 reserved,
//       67 lane_starts_violation, 71:68 index
pub const DDW0_RESERVED: u128 = (0xFFu128 << 56) | (1u128 << 64) | (1u128 << 66);

pub fn spec_ihw_sane(b: &[u8; 10]) -> bool {
    b[9] == ID_IHW && (w80(b) & IHW_RESERVED) == 0
}
pub fn spec_tdh_sane(b: &[u8; 10]) -> bool {
    let v = w80(b);
    b[9] == ID_TDH && (v & TDH_RESERVED) == 0 && (bits(v, 11, 0) != 0 || bits(v, 12, 12) != 0)
}
pub fn spec_tdt_sane(b: &[u8; 10]) -> bool {
    b[9] == ID_TDT && (w80(b) & TDT_RESERVED) == 0
}
pub fn spec_ddw0_sane(b: &[u8; 10]) -> bool {
    let v = w80(b);
    b[9] == ID_DDW0 && (v & DDW0_RESERVED) == 0 && bits(v, 71, 68) == 0
}

/// Valid data word identifiers: IL 0x20..=0x28, ML/OL 0x40..=0x46, 0x48..=0x4E, 0x50..=0x56, 0x58..=0x5E
pub fn spec_data_id_valid(id: u8) -> bool {
    (0x20..=0x28).contains(&id)
        || (0x40..=0x46).contains(&id)
        || (0x48..=0x4E).contains(&id)
        || (0x50..=0x56).contains(&id)
        || (0x58..=0x5E).contains(&id)
}
pub fn spec_is_ib_id(id: u8) -> bool {
    id >> 5 == 0b001
}
pub fn spec_is_ob_id(id: u8) -> bool {
    id >> 5 == 0b010
}
/// IB lane = 5 LSB of the id
pub fn spec_ib_lane(id: u8) -> u8 {
    id & 0x1F
}
/// OB: connector = bits 4:3, input = bits 2:0; lane = 7*connector + input
pub fn spec_ob_connector(id: u8) -> u8 {
    (id >> 3) & 0b11
}
pub fn spec_ob_input(id: u8) -> u8 {
    id & 0b111
}
pub fn spec_ob_lane(id: u8) -> u8 {
    7 * spec_ob_connector(id) + spec_ob_input(id)
}

// ------------------------------------------------------------------ spec: payload FSM

/// Abstract states of doc/ITS_payload_fsm_continuous_mode.puml
#[derive(Clone, Copy, PartialEq, Eq, Debug)]
pub enum Q {
    Ihw,
    Tdh,
    /// choice after a TDH with no_data == 1: TDH / DDW0 / IHW
    AfterTdhNoData,
    /// Data / after_Data choice: data word / TDT (/ CDW per checks_list.md)
    Data,
    /// choice after a TDT with packet_done == 1: TDH / DDW0 / IHW
    AfterTdtDone,
    CIhw,
    CTdh,
    CData,
}

/// Word class the diagram prescribes
#[derive(Clone, Copy, PartialEq, Eq, Debug)]
pub enum Cls {
    Ihw,
    IhwCont,
    Tdh,
    TdhCont,
    TdhAfterDone,
    Tdt,
    Cdw,
    Data,
    Ddw0,
    /// not legal in this (choice) state
    Illegal,
}

pub fn spec_no_data(b: &[u8; 10]) -> bool {
    bits(w80(b), 13, 13) == 1
}
pub fn spec_packet_done(b: &[u8; 10]) -> bool {
    bits(w80(b), 64, 64) == 1
}

/// (class, Some(successor)) — successor None = not prescribed (after an illegal word)
pub fn spec_step(q: Q, b: &[u8; 10]) -> (Cls, Option<Q>) {
    let id = b[9];
    match q {
        Q::Ihw => (Cls::Ihw, Some(Q::Tdh)),
        Q::Tdh => (
            Cls::Tdh,
            Some(if spec_no_data(b) { Q::AfterTdhNoData } else { Q::Data }),
        ),
        Q::AfterTdhNoData | Q::AfterTdtDone => {
            if id == ID_TDH {
                (
                    Cls::TdhAfterDone,
                    Some(if spec_no_data(b) { Q::AfterTdhNoData } else { Q::Data }),
                )
            } else if id == ID_IHW {
                (Cls::Ihw, Some(Q::Tdh))
            } else if id == ID_DDW0 {
                (Cls::Ddw0, Some(Q::Ihw))
            } else {
                (Cls::Illegal, None)
            }
        }
        Q::Data | Q::CData => {
            if spec_data_id_valid(id) {
                (Cls::Data, Some(q))
            } else if id == ID_TDT {
                (
                    Cls::Tdt,
                    Some(if spec_packet_done(b) { Q::AfterTdtDone } else { Q::CIhw }),
                )
            } else if id == ID_CDW {
                (Cls::Cdw, Some(q))
            } else {
                (Cls::Illegal, None)
            }
        }
        Q::CIhw => (Cls::IhwCont, Some(Q::CTdh)),
        Q::CTdh => (Cls::TdhCont, Some(Q::CData)),
    }
}

/// Stub for `alloc::fmt::format`: an empty String (no heap allocation). Text is never part of a
/// proved postcondition; this removes the dominant CBMC cost on error paths.
pub fn stub_format(_args: core::fmt::Arguments<'_>) -> String {
    String::new()
}
