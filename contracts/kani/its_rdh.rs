// Contracts for fastpasta/src/analyze/validators/its/cdp_running/rdh_validator.rs
#![allow(dead_code, unused_results, clippy::all)]
use super::*;
use crate::verif_support::*;
use alice_protocol_reader::prelude::*;

// @harness id=full_its_rdh_rules props=C02,C01,C04 kind=full tier=quick fns=ItsRdhValidator::new,ItsRdhValidator::rdh,ItsRdhValidator::check_at_ddw0,ItsRdhValidator::check_at_initial_ihw
#[kani::proof]
#[kani::unwind(4)]
#[kani::solver(minisat)]
fn full_its_rdh_rules() {
    let b: [u8; 64] = kani::any();
    let rdh = RdhCru::from_buf(&b[..]).unwrap();
    let v = ItsRdhValidator::new(&rdh);
    let i: usize = kani::any();
    kani::assume(i < 64);
    assert!(v.rdh().to_byte_slice()[i] == b[i], "[C02] the ITS RDH validator keeps the current packet's header");
    let which: bool = kani::any();
    if which {
        let r = v.check_at_ddw0();
        let viol = s_stop_bit(&b) != 1 || s_pages_counter(&b) == 0;
        assert!(r.is_err() == viol, "[C01][C02] DDW0 is reported iff the RDH stop bit is not 1 or the page counter is 0 (E110/E111)");
    } else {
        let r = v.check_at_initial_ihw();
        assert!(r.is_err() == (s_stop_bit(&b) != 0), "[C01][C02] initial IHW is reported iff the RDH stop bit is not 0 (E12)");
    }
}
