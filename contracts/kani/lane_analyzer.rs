// Contracts for fastpasta/src/analyze/validators/its/alpide/lane_alpide_frame_analyzer.rs
#![allow(dead_code, unused_results, clippy::all)]
use super::*;
use crate::verif_support::*;

/// analyzer in an arbitrary decoder state with `n` (<= 2) chips already recorded
fn any_analyzer<'a>(layer: Layer, n: u8, ids: [u8; 2], bcs: [Option<u8>; 2]) -> LaneAlpideFrameAnalyzer<'a> {
    let mut a = LaneAlpideFrameAnalyzer::new(layer, None, None);
    a.is_header_seen = kani::any();
    a.last_chip_id = kani::any();
    a.skip_n_bytes = kani::any();
    a.next_is_bc = kani::any();
    a.lane_status_fatal = kani::any();
    let mut i = 0;
    while i < n as usize {
        let mut cd = AlpideFrameChipData::from_id_no_data(ids[i]);
        cd.bunch_counter = bcs[i];
        a.chip_data.push(cd);
        i += 1;
    }
    a
}

fn is_fatal_ape(b: u8) -> bool {
    b == 0xF4 || (0xF5..=0xFC).contains(&b)
}

// @harness id=full_alpide_decode_step props=C13,C14,C04 kind=full tier=quick fns=LaneAlpideFrameAnalyzer::decode,LaneAlpideFrameAnalyzer::store_bunch_counter,AlpideFrameChipData::store_bc,LaneAlpideFrameAnalyzer::new stubs=alloc::fmt::format
// One decoder step from an arbitrary decoder state on an arbitrary byte == the ALPIDE decoding rules.
// Hit content (bytes consumed as data/skip bytes) never influences the successor state.
#[kani::proof]
#[kani::stub(alloc::fmt::format, stub_format_nonempty)]
#[kani::unwind(4)]
fn full_alpide_decode_step() {
    let n: u8 = kani::any();
    kani::assume(n <= 2);
    let ids: [u8; 2] = kani::any();
    kani::assume(ids[0] < 16 && ids[1] < 16 && ids[0] != ids[1]);
    let bcs: [Option<u8>; 2] = kani::any();
    let mut a = any_analyzer(Layer::Outer, n, ids, bcs);
    kani::assume(a.last_chip_id < 16 && a.skip_n_bytes <= 2);
    let (hs, lc, sk, nb, fatal) = (a.is_header_seen, a.last_chip_id, a.skip_n_bytes, a.next_is_bc, a.lane_status_fatal);
    let trailers0 = a.alpide_stats.readout_flags().chip_trailers_seen();
    kani::assume(trailers0 < 1000);
    let flags0 = *a.alpide_stats.readout_flags();
    kani::assume(flags0.busy_violations() < 1000 && flags0.data_overrun() < 1000 && flags0.transmission_in_fatal() < 1000
        && flags0.flushed_incomplete() < 1000 && flags0.strobe_extended() < 1000 && flags0.busy_transitions() < 1000);
    let b: u8 = kani::any();
    a.decode(b);
    // representation invariant the bunch counter check relies on (it unwraps `bunch_counter` of every recorded chip):
    // a chip is recorded only together with its bunch counter - preserved by every decoder step
    let inv0 = (n < 1 || bcs[0].is_some()) && (n < 2 || bcs[1].is_some());
    if inv0 {
        let mut k = 0;
        while k < a.chip_data.len() {
            assert!(a.chip_data[k].bunch_counter.is_some(), "[C04][C13] every recorded chip has its bunch counter (check_bunch_counters unwraps it)");
            k += 1;
        }
    }
    let trailers = a.alpide_stats.readout_flags().chip_trailers_seen();
    // the flag counters change only at a chip trailer, and then exactly as ReadoutFlags::log (full_readout_flags_log)
    // prescribes for the WHOLE trailer byte
    let mut flags_exp = flags0;
    if sk == 0 && !nb && !(!hs && b == 0) && (0xB0..=0xBF).contains(&b) {
        flags_exp.log(b);
    }
    assert!(*a.alpide_stats.readout_flags() == flags_exp, "[C13][C14] the readout flags of a chip trailer are logged from the whole trailer byte, and nothing else changes the flag counters");
    if sk > 0 {
        // a skipped (hit payload) byte: only the skip count changes, whatever the byte
        assert!(a.skip_n_bytes == sk - 1 && a.is_header_seen == hs && a.last_chip_id == lc && a.next_is_bc == nb
            && a.lane_status_fatal == fatal && a.chip_data.len() == n as usize && trailers == trailers0,
            "[C13][C01][C02] hit payload bytes only count down the skip counter (verdict independent of hit content)");
    } else if nb {
        assert!(!a.next_is_bc && a.skip_n_bytes == 0 && a.is_header_seen == hs && a.lane_status_fatal == fatal && trailers == trailers0,
            "[C13][C01][C02] the byte after a chip header / empty frame is consumed as the bunch counter");
        // stored for the chip whose header was last seen
        let known = (n >= 1 && ids[0] == lc) || (n >= 2 && ids[1] == lc);
        if !known {
            assert!(a.chip_data.len() == n as usize + 1, "[C13][C01][C02] a new chip is recorded with its bunch counter");
            let cd = &a.chip_data[n as usize];
            assert!(cd.chip_id == lc && cd.bunch_counter == Some(b), "[C13][C01][C02] chip id and bunch counter are those of the header");
            assert!(!a.has_errors(), "[C13][C01] a first bunch counter for a chip is not an error");
        } else {
            let k = if n >= 1 && ids[0] == lc { 0 } else { 1 };
            assert!(a.chip_data.len() == n as usize, "[C13][C01][C02] a chip seen again is not recorded twice");
            if bcs[k].is_none() {
                assert!(a.chip_data[k].bunch_counter == Some(b) && !a.has_errors(), "[C13][C01][C02] bunch counter stored for the known chip");
            } else {
                assert!(a.chip_data[k].bunch_counter == bcs[k] && a.has_errors(), "[C13][C02] a second bunch counter for the same chip is reported");
            }
        }
    } else if !hs && b == 0 {
        assert!(a.skip_n_bytes == 0 && !a.is_header_seen && a.last_chip_id == lc && !a.next_is_bc && a.lane_status_fatal == fatal
            && a.chip_data.len() == n as usize && trailers == trailers0, "[C13][C01][C02] padding between chips is ignored");
    } else {
        let exp_skip = if (0x40..=0x7F).contains(&b) { 1 } else if b <= 0x3F { 2 } else { 0 };
        assert!(a.skip_n_bytes == exp_skip, "[C13][C01][C02] data short skips 1 byte, data long skips 2: hit content is never decoded");
        let hdr = (0xA0..=0xAF).contains(&b);
        let empty = (0xE0..=0xEF).contains(&b);
        let trailer = (0xB0..=0xBF).contains(&b);
        let region = (0xC0..=0xDF).contains(&b);
        let exp_hs = if hdr || region { true } else if empty || trailer { false } else { hs };
        assert!(a.is_header_seen == exp_hs, "[C13][C01][C02] chip/region header opens, chip trailer / empty frame closes a chip's data");
        assert!(a.next_is_bc == (hdr || empty), "[C13][C01][C02] chip header and chip empty frame are followed by the bunch counter byte");
        assert!(a.last_chip_id == if hdr || empty { b & 0xF } else { lc }, "[C13][C01][C02] chip id is the low nibble of chip header / empty frame");
        assert!(trailers == trailers0 + trailer as u32, "[C13][C01][C02] readout flags are logged for chip trailers only");
        assert!(a.lane_status_fatal == (fatal || is_fatal_ape(b)), "[C13][C01][C02] exactly the fatal APEs mark the lane fatal");
        assert!(a.chip_data.len() == n as usize, "[C13][C01][C02] chips are recorded only with their bunch counter");
    }
    kani::cover!(sk == 0 && !nb && is_fatal_ape(b));
    kani::cover!(sk == 0 && nb && n == 2);
}

// @harness id=full_alpide_chip_count props=C13,C20,C04 kind=full tier=quick fns=LaneAlpideFrameAnalyzer::check_chip_count stubs=alloc::fmt::format
// IB: exactly one chip per lane; OB: exactly the user-configured count (nothing enforced when not configured).
#[kani::proof]
#[kani::stub(alloc::fmt::format, stub_format_nonempty)]
#[kani::unwind(10)]
fn full_alpide_chip_count() {
    let which: u8 = kani::any();
    kani::assume(which <= 2);
    let layer = if which == 0 { Layer::Inner } else if which == 1 { Layer::Middle } else { Layer::Outer };
    let cfg: Option<u8> = kani::any();
    let mut a = LaneAlpideFrameAnalyzer::new(layer, None, cfg);
    let n: u8 = kani::any();
    kani::assume(n <= 8);
    let mut i = 0;
    while i < n {
        a.chip_data.push(AlpideFrameChipData::from_id_no_data(i));
        i += 1;
    }
    let r = a.check_chip_count();
    let viol = if which == 0 { n != 1 } else { cfg.is_some() && cfg.unwrap() != n };
    assert!(r.is_err() == viol, "[C13][C20] chip count error (E9004) iff IB lane has != 1 chip or OB lane differs from the configured count");
}

// @harness id=full_alpide_chip_order_ib props=C13,C04 kind=full tier=quick fns=LaneAlpideFrameAnalyzer::check_chip_id_order stubs=alloc::fmt::format
#[kani::proof]
#[kani::stub(alloc::fmt::format, stub_format_nonempty)]
#[kani::unwind(4)]
fn full_alpide_chip_order_ib() {
    let mut a = LaneAlpideFrameAnalyzer::new(Layer::Inner, None, None);
    a.lane_number = kani::any();
    let id: u8 = kani::any();
    a.chip_data.push(AlpideFrameChipData::from_id_no_data(id));
    let r = a.check_chip_id_order();
    assert!(r.is_err() == (id != a.lane_number), "[C13][C01][C02] inner-barrel chip id must equal its lane (E9005)");
}

// @harness id=bnd_alpide_chip_order_ob props=C20,C13,C01,C02,C04 kind=bnd tier=quick bound=chips<=3,orders=2x3 fns=LaneAlpideFrameAnalyzer::check_chip_id_order stubs=alloc::fmt::format
// Outer barrel with a configured list of valid chip orders: the lane is reported (E9005) exactly when the
// sequence of chip ids seen in the lane equals none of the configured orders; without a configured list never.
#[kani::proof]
#[kani::stub(alloc::fmt::format, stub_format_nonempty)]
#[kani::unwind(5)]
fn bnd_alpide_chip_order_ob() {
    let o: [u8; 6] = kani::any();
    let orders: [Vec<u8>; 2] = [vec![o[0], o[1], o[2]], vec![o[3], o[4], o[5]]];
    let configured: bool = kani::any();
    let mut a = LaneAlpideFrameAnalyzer::new(Layer::Outer, if configured { Some(&orders[..]) } else { None }, None);
    let n: usize = kani::any();
    kani::assume(n >= 1 && n <= 3);
    let ids: [u8; 3] = kani::any();
    let mut i = 0;
    while i < n {
        a.chip_data.push(AlpideFrameChipData::from_id_no_data(ids[i]));
        i += 1;
    }
    let r = a.check_chip_id_order();
    let eq = |k: usize| n == 3 && ids[0] == o[3 * k] && ids[1] == o[3 * k + 1] && ids[2] == o[3 * k + 2];
    let viol = configured && !eq(0) && !eq(1);
    assert!(r.is_err() == viol, "[C20][C13][C01][C02] OB chip order error iff a list of valid orders is configured and the lane's chip id sequence is none of them");
    kani::cover!(r.is_ok() && configured);
}

fn stub_random_state_new() -> std::hash::RandomState {
    // fixed keys: RandomState is two u64 (hash quality is irrelevant for the verdicts)
    unsafe { core::mem::transmute::<[u64; 2], std::hash::RandomState>([1, 2]) }
}

// @harness id=full_bunch_counters_empty_nopanic props=C04,C13 kind=full tier=quick fns=LaneAlpideFrameAnalyzer::check_bunch_counters stubs=alloc::fmt::format,std::hash::RandomState::new
// A lane whose data contains no chip header/empty frame (corrupted or padding-only lane data) has no chips:
// the bunch counter check must not crash and leaves no validated bunch counter.
#[kani::proof]
#[kani::stub(alloc::fmt::format, stub_format_nonempty)]
#[kani::stub(std::hash::RandomState::new, stub_random_state_new)]
#[kani::unwind(4)]
fn full_bunch_counters_empty_nopanic() {
    let mut a = LaneAlpideFrameAnalyzer::new(Layer::Outer, None, None);
    let r = a.check_bunch_counters();
    assert!(r.is_ok() && a.validated_bc().is_none(), "[C13][C01][C02] a lane without any chip has no bunch counter mismatch and no validated bunch counter");
}

// ---- contract-shaped stand-in for analyze_alpide_frame (used by the frame-level harness in alpide.rs):
// the k-th analysed lane gets outcome LN.outcome[k]: 0 = no errors (bunch counter LN.bc[k]), 1 = lane
// errors, 2 = lane announced a fatal state
pub(crate) struct LaneRec {
    pub marker: u64,
    pub outcome: [u8; 3],
    pub bc: [u8; 3],
    pub calls: usize,
}
// one static with a unique marker (see support.rs)
pub(crate) static mut LN: LaneRec = LaneRec { marker: 0x5EED_0000_0000_0005, outcome: [0; 3], bc: [0; 3], calls: 0 };
pub(crate) fn stub_analyze_alpide_frame<'a>(a: &mut LaneAlpideFrameAnalyzer<'a>, _f: &LaneDataFrame) -> Result<(), String>
where
    'a: 'a,
{
    let k = unsafe { LN.calls };
    unsafe { LN.calls += 1 };
    let o = if k < 3 { unsafe { LN.outcome[k] } } else { 0 };
    if o == 1 {
        Err(String::new())
    } else if o == 2 {
        a.lane_status_fatal = true;
        Ok(())
    } else {
        a.validated_bc = Some(if k < 3 { unsafe { LN.bc[k] } } else { 0 });
        Ok(())
    }
}
