// Contracts for fastpasta/src/config.rs, config/lib.rs (argument validation, skip-payload decision)
#![allow(dead_code, unused_results, clippy::all)]
use super::*;
use crate::config::check::{CheckModeArgs, CmdPathArg, System};

/// command space: 0 none, 1..=3 view {rdh, frames, frames-data}, 4.. check {all,sanity} x target {none,its,its-stave}
fn any_cmd(k: u8) -> Option<Command> {
    let target = |t: u8| match t {
        0 => None,
        1 => Some(System::ITS),
        _ => Some(System::ITS_Stave),
    };
    match k {
        0 => None,
        1 => Some(Command::View(ViewArgs { cmd: ViewCommands::Rdh })),
        2 => Some(Command::View(ViewArgs { cmd: ViewCommands::ItsReadoutFrames })),
        3 => Some(Command::View(ViewArgs { cmd: ViewCommands::ItsReadoutFramesData })),
        4..=6 => Some(Command::Check(CheckArgs { cmd: CheckCommands::All(CheckModeArgs { target: target(k - 4), path: CmdPathArg::default() }) })),
        _ => Some(Command::Check(CheckArgs { cmd: CheckCommands::Sanity(CheckModeArgs { target: target(k - 7), path: CmdPathArg::default() }) })),
    }
}

fn cfg_with(k: u8, period: Option<u16>, exit_code: Option<u8>) -> Cfg {
    Cfg {
        file: None,
        cmd: any_cmd(k),
        verbosity: 0,
        max_tolerate_errors: 0,
        any_errors_exit_code: exit_code,
        filter_link: None,
        filter_fee: None,
        filter_its_stave: None,
        its_trigger_period: period,
        output: None,
        mute_errors: false,
        generate_checks_toml: false,
        checks_toml: None,
        stats_output: DataOutputMode::None,
        stats_output_format: None,
        input_stats_file: None,
        show_error_codes: Vec::new(),
        generate_completions: None,
        disable_styled_views: false,
    }
}

// @harness id=full_skip_payload props=C03,C14,C04 kind=full tier=quick fns=Cfg::skip_payload,Cfg::check,Cfg::view,Cfg::output_mode
// Payloads are skipped exactly for `view rdh` and for checks without a target system.
#[kani::proof]
#[kani::unwind(4)]
fn full_skip_payload() {
    let k: u8 = kani::any();
    kani::assume(k <= 9);
    let c = cfg_with(k, None, None);
    let expect = k == 1 || k == 4 || k == 7;
    assert!(c.skip_payload() == expect, "[C03] payloads are skipped exactly for `view rdh` and for `check all|sanity` without a target");
}

// @harness id=full_validate_args props=C16,C04 kind=full tier=quick fns=Config::validate_args,Config::alpide_checks_enabled stubs=alloc::fmt::format
// Invalid option combinations are rejected: `check sanity its-stave`, a trigger period without
// `check all its-stave`, and an any-errors exit code of 0 (no statistics file given).
#[kani::proof]
#[kani::stub(alloc::fmt::format, crate::verif_support::stub_format_nonempty)]
#[kani::unwind(4)]
fn full_validate_args() {
    let k: u8 = kani::any();
    kani::assume(k <= 9);
    let period: Option<u16> = kani::any();
    let code: Option<u8> = kani::any();
    let c = cfg_with(k, period, code);
    let r = c.validate_args();
    let sanity_stave = k == 9;
    // stave target: k == 6 (all) or 9 (sanity)
    let period_without_stave = period.is_some() && !(k == 6 || k == 9);
    let invalid = sanity_stave || period_without_stave || code == Some(0);
    assert!(r.is_err() == invalid, "[C16] exactly the documented invalid option combinations are rejected");
    assert!(c.alpide_checks_enabled() == (k == 6 || k == 9), "[C13][C16] ALPIDE checks are enabled exactly with the its-stave target");
}

// @harness id=full_exit_code props=C16,C04 kind=full tier=quick fns=util::lib::exit,Cfg::global
// Exit status selection: a non-zero status is passed through; status 0 becomes the configured
// any-errors code exactly when one is configured and the any-errors flag is set.
#[kani::proof]
#[kani::unwind(4)]
fn full_exit_code() {
    let code: Option<u8> = kani::any();
    let _ = CONFIG.set(cfg_with(4, None, code));
    let flag_val: bool = kani::any();
    let flag = AtomicBool::new(flag_val);
    let ec: u8 = kani::any();
    let r = crate::util::lib::exit(ec, &flag);
    // std::process::ExitCode is a one-byte wrapper on unix
    let got: u8 = unsafe { core::mem::transmute::<ExitCode, u8>(r) };
    let expect = if ec != 0 { ec } else if code.is_some() && flag_val { code.unwrap() } else { 0 };
    assert!(got == expect, "[C16] exit status: non-zero passed through, else the any-errors code iff configured and something was reported, else 0");
}

// @harness id=full_cfg_custom_checks_gate props=C20,C04 kind=full tier=quick fns=Cfg::custom_checks_enabled,Cfg::custom_checks,Cfg::cdps,Cfg::triggers_pht,Cfg::rdh_version,Cfg::chip_count_ob
// The real CLI config: custom checks are enabled iff the loaded file sets at least one of the five keys,
// and every key is handed out as configured.
#[kani::proof]
#[kani::unwind(4)]
fn full_cfg_custom_checks_gate() {
    use crate::config::custom_checks::custom_checks_cfg::verif_custom_cfg::mk_custom_checks;
    let (a, b, o, c, v): (Option<u32>, Option<u32>, bool, Option<u8>, Option<u8>) = (kani::any(), kani::any(), kani::any(), kani::any(), kani::any());
    let _ = CUSTOM_CHECKS.set(mk_custom_checks(a, b, o, c, v));
    let mut cfg = cfg_with(6, None, None);
    cfg.checks_toml = Some(PathBuf::new());
    let cfg: &'static Cfg = Box::leak(Box::new(cfg));
    let any_key = a.is_some() || b.is_some() || o || c.is_some() || v.is_some();
    assert!(cfg.custom_checks_enabled() == any_key, "[C20] custom checks are enabled iff the file sets at least one key (every key counts)");
    assert!(cfg.cdps() == a && cfg.triggers_pht() == b && cfg.chip_count_ob() == c && cfg.rdh_version() == v && cfg.chip_orders_ob().is_some() == o, "[C20] every configured key reaches its check as configured");
}
