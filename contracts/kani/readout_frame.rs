// Contracts for fastpasta/src/analyze/validators/its/alpide/alpide_readout_frame.rs
// (the ML/OL lane-count rule of check_frame_lanes_valid is proved in the Verus unit v_frame; a Kani harness over
// Vec<LaneDataFrame> with up to 15 lanes timed out)
#![allow(dead_code, unused_results, clippy::all)]
use super::*;
use crate::verif_support::*;

fn frame_with(layer: Layer, n: usize, ids: &[u8; 16]) -> AlpideReadoutFrame {
    let mut f = AlpideReadoutFrame::new(0x40);
    f.from_layer = Some(layer);
    f.lane_data_frames = Vec::with_capacity(16);
    let mut i = 0;
    while i < n {
        f.lane_data_frames.push(LaneDataFrame::new(ids[i], Vec::new()));
        i += 1;
    }
    f.close_frame(0x80);
    f
}

// @harness id=bnd_frame_lanes_ib props=C13,C04 kind=bnd tier=manual bound=lanes<=4,fatal<=1 fns=AlpideReadoutFrame::check_frame_lanes_valid,validate_inner_lane_groupings stubs=alloc::fmt::format
// Inner barrel: 3 lanes forming one of the fixed groups {0,1,2},{3,4,5},{6,7,8} (minus a fatal lane).
#[kani::proof]
#[kani::stub(alloc::fmt::format, stub_format_nonempty)]
#[kani::unwind(6)]
fn bnd_frame_lanes_ib() {
    let n: usize = kani::any();
    kani::assume(n <= 4);
    let mut ids: [u8; 16] = kani::any();
    let mut i = 0;
    while i < 4 {
        kani::assume(ids[i] >= 0x20 && ids[i] <= 0x28); // inner barrel data word ids (lanes 0..=8)
        i += 1;
    }
    kani::assume(ids[0] < ids[1] && ids[1] < ids[2] && ids[2] < ids[3]); // distinct lanes (a lane has one frame), any order is sorted by the code
    let f = frame_with(Layer::Inner, n, &ids);
    let fl: u8 = kani::any();
    kani::assume(fl <= 8);
    let has_fatal: bool = kani::any();
    let fatal = [fl];
    let r = f.check_frame_lanes_valid(if has_fatal { Some(&fatal[..]) } else { None });
    let lane = |i: usize| ids[i] & 0x1F;
    let ok = if !has_fatal {
        n == 3 && lane(0) % 3 == 0 && lane(1) == lane(0) + 1 && lane(2) == lane(0) + 2
    } else {
        // the group of the fatal lane without that lane
        let g = (fl / 3) * 3;
        let (a, b) = if fl == g { (g + 1, g + 2) } else if fl == g + 1 { (g, g + 2) } else { (g, g + 1) };
        n == 2 && lane(0) == a && lane(1) == b
    };
    assert!(r.is_ok() == ok, "[C13] IB frames carry 3 lanes forming one of the fixed groups, fewer only by fatal lanes");
    kani::cover!(r.is_ok() && has_fatal);
    kani::cover!(r.is_ok() && !has_fatal);
}

// @harness id=bnd_groupings_nopanic props=C04 kind=bnd tier=manual bound=lanes=0,fatal=1 fns=validate_inner_lane_groupings stubs=alloc::fmt::format
// No precondition on the fatal lane number: it is the 5 LSB of a (possibly corrupted) data word id, 0..=31.
#[kani::proof]
#[kani::stub(alloc::fmt::format, stub_format_nonempty)]
#[kani::unwind(6)]
fn bnd_groupings_nopanic() {
    // (no lane data at all: the crash site is the handling of the fatal lane list itself)
    let frames: [LaneDataFrame; 0] = [];
    let fl: u8 = kani::any();
    kani::assume(fl < 32);
    let fatal = [fl];
    let _ = validate_inner_lane_groupings(&frames[..], Some(&fatal[..]));
}
