// Contracts for fastpasta/src/analyze/validators/its/alpide/alpide_readout_frame.rs
// (the ML/OL lane-count rule of check_frame_lanes_valid is proved in the Verus unit v_frame; a Kani harness over
// Vec<LaneDataFrame> with up to 15 lanes timed out). The inner-barrel grouping harnesses replace `<[u8]>::sort_unstable`
// (pdqsort: > 12 GB in CBMC) by an insertion sort with the same contract.
#![allow(dead_code, unused_results, clippy::all)]
use super::*;
use crate::verif_support::*;

fn frame_with(layer: Layer, n: usize, ids: &[u8; 16]) -> AlpideReadoutFrame {
    let mut f = AlpideReadoutFrame::new(0x40);
    f.from_layer = Some(layer);
    f.lane_data_frames = Vec::with_capacity(16);
    let mut i = 0;
    while i < n {
        f.lane_data_frames.push(LaneDataFrame::new(ids[i], Vec::new()));
        i += 1;
    }
    f.close_frame(0x80);
    f
}

// @harness id=bnd_frame_lanes_ib props=C13,C01,C02,C04 kind=bnd tier=quick bound=lanes<=4,fatal<=1 fns=AlpideReadoutFrame::check_frame_lanes_valid,validate_inner_lane_groupings stubs=alloc::fmt::format,slice::sort_unstable
// Inner barrel: 3 lanes forming one of the fixed groups {0,1,2},{3,4,5},{6,7,8} (minus a fatal lane).
#[kani::proof]
#[kani::stub(alloc::fmt::format, stub_format_nonempty)]
#[kani::stub(<[u8]>::sort_unstable, stub_sort_unstable)]
#[kani::unwind(6)]
fn bnd_frame_lanes_ib() {
    let n: usize = kani::any();
    kani::assume(n <= 4);
    let mut ids: [u8; 16] = kani::any();
    let mut i = 0;
    while i < 4 {
        kani::assume(ids[i] >= 0x20 && ids[i] <= 0x28); // inner barrel data word ids (lanes 0..=8)
        i += 1;
    }
    kani::assume(ids[0] < ids[1] && ids[1] < ids[2] && ids[2] < ids[3]); // distinct lanes (a lane has one frame), any order is sorted by the code
    let f = frame_with(Layer::Inner, n, &ids);
    let fl: u8 = kani::any();
    kani::assume(fl <= 8);
    let has_fatal: bool = kani::any();
    let fatal = [fl];
    let r = f.check_frame_lanes_valid(if has_fatal { Some(&fatal[..]) } else { None });
    let lane = |i: usize| ids[i] & 0x1F;
    let ok = if !has_fatal {
        n == 3 && lane(0) % 3 == 0 && lane(1) == lane(0) + 1 && lane(2) == lane(0) + 2
    } else {
        // the group of the fatal lane without that lane
        let g = (fl / 3) * 3;
        let (a, b) = if fl == g { (g + 1, g + 2) } else if fl == g + 1 { (g, g + 2) } else { (g, g + 1) };
        n == 2 && lane(0) == a && lane(1) == b
    };
    assert!(r.is_ok() == ok, "[C13][C01][C02] IB frames carry 3 lanes forming one of the fixed groups, fewer only by fatal lanes");
    kani::cover!(r.is_ok() && has_fatal);
    kani::cover!(r.is_ok() && !has_fatal);
}

// @harness id=bnd_groupings_nopanic props=C04,C13 kind=bnd tier=quick bound=lanes=0,fatal=1 fns=validate_inner_lane_groupings stubs=alloc::fmt::format,slice::sort_unstable
// No precondition on the fatal lane number: it is the 5 LSB of a (possibly corrupted) data word id, 0..=31.
#[kani::proof]
#[kani::stub(alloc::fmt::format, stub_format_nonempty)]
#[kani::stub(<[u8]>::sort_unstable, stub_sort_unstable)]
#[kani::unwind(6)]
fn bnd_groupings_nopanic() {
    // (no lane data at all: the crash site is the handling of the fatal lane list itself)
    let frames: [LaneDataFrame; 0] = [];
    let fl: u8 = kani::any();
    kani::assume(fl < 32);
    let fatal = [fl];
    let _ = validate_inner_lane_groupings(&frames[..], Some(&fatal[..]));
}

/// simple equivalents of two std routines whose real bodies (pdqsort; retain's two-phase guard loops) exhaust CBMC
fn stub_sort_unstable<T: Ord>(s: &mut [T]) {
    let n = s.len();
    let mut i = 1;
    while i < n {
        let mut j = i;
        while j > 0 && s[j - 1] > s[j] {
            s.swap(j - 1, j);
            j -= 1;
        }
        i += 1;
    }
}
fn stub_retain<T, A: std::alloc::Allocator, F: FnMut(&T) -> bool>(v: &mut Vec<T, A>, mut f: F) {
    let mut i = 0;
    while i < v.len() {
        if f(&v[i]) {
            i += 1;
        } else {
            v.remove(i);
        }
    }
}

// @harness id=bnd_groupings_fatal props=C13,C01,C02,C04 kind=bnd tier=quick bound=lanes<=3,fatal<=1 fns=validate_inner_lane_groupings stubs=alloc::fmt::format,slice::sort_unstable
// Inner-barrel grouping with at most one known-fatal lane: the lanes present must be exactly one of the fixed
// groups {0,1,2},{3,4,5},{6,7,8} with the fatal lane (any of 0..=8) removed from its group.
#[kani::proof]
#[kani::stub(alloc::fmt::format, stub_format_nonempty)]
#[kani::stub(<[u8]>::sort_unstable, stub_sort_unstable)]
// (Vec::retain cannot be stubbed: Kani rejects the generic stub with a spurious type mismatch)
#[kani::unwind(6)]
fn bnd_groupings_fatal() {
    let n: usize = kani::any();
    kani::assume(n >= 2 && n <= 3);
    let lanes: [u8; 3] = kani::any();
    kani::assume(lanes[0] <= 8 && lanes[1] <= 8 && lanes[2] <= 8);
    kani::assume(lanes[0] < lanes[1] && (n < 3 || lanes[1] < lanes[2]));
    let frames = [
        LaneDataFrame::new(0x20 + lanes[0], Vec::new()),
        LaneDataFrame::new(0x20 + lanes[1], Vec::new()),
        LaneDataFrame::new(0x20 + lanes[2], Vec::new()),
    ];
    let fl: u8 = kani::any();
    kani::assume(fl < 32);
    let has_fatal: bool = kani::any();
    let fatal = [fl];
    let r = validate_inner_lane_groupings(&frames[..n], if has_fatal { Some(&fatal[..]) } else { None });
    let g = (lanes[0] / 3) * 3;
    let full = n == 3 && lanes[0] == g && lanes[1] == g + 1 && lanes[2] == g + 2;
    let ok = if !has_fatal || fl > 8 {
        full
    } else {
        // a group of three is still valid if the fatal lane is in another group; the fatal lane's group is valid without it
        let fg = (fl / 3) * 3;
        let (a, b) = if fl == fg { (fg + 1, fg + 2) } else if fl == fg + 1 { (fg, fg + 2) } else { (fg, fg + 1) };
        (full && g != fg) || (n == 2 && lanes[0] == a && lanes[1] == b)
    };
    assert!(r.is_ok() == ok, "[C13][C01][C02] IB lanes form one of the fixed groups; a group may lack exactly its known-fatal lane");
    kani::cover!(r.is_ok() && has_fatal && n == 2 && fl == 8);
    core::mem::forget(frames);
}

// @harness id=bnd_groupings_two_fatal props=C13,C01,C02,C04 kind=bnd tier=thorough bound=lanes<=3,fatal=2 fns=validate_inner_lane_groupings stubs=alloc::fmt::format,slice::sort_unstable
// Two known-fatal lanes (any numbers 0..31, possibly in the same group, possibly equal): the lanes present must
// be exactly one of the three groups with its fatal lanes removed.
#[kani::proof]
#[kani::stub(alloc::fmt::format, stub_format_nonempty)]
#[kani::stub(<[u8]>::sort_unstable, stub_sort_unstable)]
#[kani::unwind(6)]
fn bnd_groupings_two_fatal() {
    let n: usize = kani::any();
    kani::assume(n >= 1 && n <= 3);
    let lanes: [u8; 3] = kani::any();
    kani::assume(lanes[0] <= 8 && lanes[1] <= 8 && lanes[2] <= 8);
    kani::assume((n < 2 || lanes[0] < lanes[1]) && (n < 3 || lanes[1] < lanes[2]));
    let frames = [
        LaneDataFrame::new(0x20 + lanes[0], Vec::new()),
        LaneDataFrame::new(0x20 + lanes[1], Vec::new()),
        LaneDataFrame::new(0x20 + lanes[2], Vec::new()),
    ];
    let fatal: [u8; 2] = kani::any();
    kani::assume(fatal[0] < 32 && fatal[1] < 32);
    let r = validate_inner_lane_groupings(&frames[..n], Some(&fatal[..]));
    // spec: some group g whose members, minus the fatal lanes, are exactly the lanes present (in ascending order)
    let mut ok = false;
    let mut g = 0u8;
    while g < 3 {
        let mut k = 0usize; // members of the adjusted group matched so far
        let mut good = true;
        let mut m = 0u8;
        while m < 3 {
            let lane = 3 * g + m;
            if lane != fatal[0] && lane != fatal[1] {
                if k < n && lanes[k] == lane {
                    k += 1;
                } else {
                    good = false;
                }
            }
            m += 1;
        }
        if good && k == n {
            ok = true;
        }
        g += 1;
    }
    assert!(r.is_ok() == ok, "[C13][C01][C02] IB lanes form one of the fixed groups minus its known-fatal lanes (two fatal lanes)");
    kani::cover!(r.is_ok() && n == 1);
    core::mem::forget(frames);
}
