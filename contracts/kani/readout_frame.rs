// Contracts for fastpasta/src/analyze/validators/its/alpide/alpide_readout_frame.rs
#![allow(dead_code, unused_results, clippy::all)]
use super::*;
use crate::verif_support::*;

fn frame_with(layer: Layer, n: usize, ids: &[u8; 16]) -> AlpideReadoutFrame {
    let mut f = AlpideReadoutFrame::new(0x40);
    f.from_layer = Some(layer);
    f.lane_data_frames = Vec::with_capacity(16);
    let mut i = 0;
    while i < n {
        f.lane_data_frames.push(LaneDataFrame::new(ids[i], Vec::new()));
        i += 1;
    }
    f.close_frame(0x80);
    f
}

// @harness id=bnd_frame_lane_count_ob props=C13,C04 kind=bnd tier=quick bound=lanes_6..9/12..15,fatal<=2 fns=AlpideReadoutFrame::check_frame_lanes_valid,AlpideReadoutFrame::from_layer,AlpideReadoutFrame::close_frame stubs=alloc::fmt::format
// Middle barrel frames carry 8 lanes, outer barrel 14, fewer only by the lanes that announced a fatal state.
#[kani::proof]
#[kani::stub(alloc::fmt::format, stub_format_nonempty)]
#[kani::unwind(17)]
fn bnd_frame_lane_count_ob() {
    let outer: bool = kani::any();
    let n: usize = kani::any();
    // lane counts around the expected ones (6..=9 for ML, 12..=15 for OL)
    kani::assume(if outer { n >= 12 && n <= 15 } else { n >= 6 && n <= 9 });
    let ids: [u8; 16] = [0x40; 16];
    let f = frame_with(if outer { Layer::Outer } else { Layer::Middle }, n, &ids);
    let fatal: [u8; 2] = kani::any();
    let k: usize = kani::any();
    kani::assume(k <= 2);
    let has_fatal: bool = kani::any();
    let r = f.check_frame_lanes_valid(if has_fatal { Some(&fatal[..k]) } else { None });
    let expect = (if outer { 14 } else { 8 }) - if has_fatal { k } else { 0 };
    assert!(r.is_ok() == (n == expect), "[C13] ML frames carry 8 lanes, OL frames 14, fewer only by fatal lanes");
}

// @harness id=bnd_frame_lanes_ib props=C13,C04 kind=bnd tier=quick bound=lanes<=4,fatal<=1 fns=AlpideReadoutFrame::check_frame_lanes_valid,validate_inner_lane_groupings stubs=alloc::fmt::format
// Inner barrel: 3 lanes forming one of the fixed groups {0,1,2},{3,4,5},{6,7,8} (minus a fatal lane).
#[kani::proof]
#[kani::stub(alloc::fmt::format, stub_format_nonempty)]
#[kani::unwind(6)]
fn bnd_frame_lanes_ib() {
    let n: usize = kani::any();
    kani::assume(n <= 4);
    let mut ids: [u8; 16] = kani::any();
    let mut i = 0;
    while i < 4 {
        kani::assume(ids[i] >= 0x20 && ids[i] <= 0x28); // inner barrel data word ids (lanes 0..=8)
        i += 1;
    }
    kani::assume(ids[0] < ids[1] && ids[1] < ids[2] && ids[2] < ids[3]); // distinct lanes (a lane has one frame), any order is sorted by the code
    let f = frame_with(Layer::Inner, n, &ids);
    let fl: u8 = kani::any();
    kani::assume(fl <= 8);
    let has_fatal: bool = kani::any();
    let fatal = [fl];
    let r = f.check_frame_lanes_valid(if has_fatal { Some(&fatal[..]) } else { None });
    let lane = |i: usize| ids[i] & 0x1F;
    let ok = if !has_fatal {
        n == 3 && lane(0) % 3 == 0 && lane(1) == lane(0) + 1 && lane(2) == lane(0) + 2
    } else {
        // the group of the fatal lane without that lane
        let g = (fl / 3) * 3;
        let (a, b) = if fl == g { (g + 1, g + 2) } else if fl == g + 1 { (g, g + 2) } else { (g, g + 1) };
        n == 2 && lane(0) == a && lane(1) == b
    };
    assert!(r.is_ok() == ok, "[C13] IB frames carry 3 lanes forming one of the fixed groups, fewer only by fatal lanes");
    kani::cover!(r.is_ok() && has_fatal);
    kani::cover!(r.is_ok() && !has_fatal);
}

// @harness id=bnd_frame_lanes_nopanic props=C04 kind=bnd tier=quick bound=lanes<=4,fatal<=4 fns=AlpideReadoutFrame::check_frame_lanes_valid,validate_inner_lane_groupings stubs=alloc::fmt::format
// No precondition on the fatal-lane list: it accumulates over frames (duplicates possible) and lane numbers
// come from 5-bit ids (0..=31) in corrupted data.
#[kani::proof]
#[kani::stub(alloc::fmt::format, stub_format_nonempty)]
#[kani::unwind(7)]
fn bnd_frame_lanes_nopanic() {
    let n: usize = kani::any();
    kani::assume(n <= 4);
    let ids: [u8; 16] = kani::any();
    let which: u8 = kani::any();
    let layer = if which == 0 { Layer::Inner } else if which == 1 { Layer::Middle } else { Layer::Outer };
    let f = frame_with(layer, n, &ids);
    let fatal: [u8; 4] = kani::any();
    let k: usize = kani::any();
    kani::assume(k <= 4);
    kani::assume(fatal[0] < 32 && fatal[1] < 32 && fatal[2] < 32 && fatal[3] < 32);
    let _ = f.check_frame_lanes_valid(Some(&fatal[..k]));
}
