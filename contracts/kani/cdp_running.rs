// Contracts for fastpasta/src/analyze/validators/its/cdp_running.rs (per-arm dispatch harnesses)
#![allow(dead_code, unused_results, clippy::all)]
use super::*;
use crate::analyze::validators::its::its_payload_fsm_cont::verif_fsm::{abs_of, fsm_in_variant};
use crate::config::check::{CheckModeArgs, CmdPathArg};
use crate::verif_support::*;

type V = CdpRunningValidator<RdhCru, MockConfig>;

fn leak_cfg(all: bool, period: Option<u16>) -> &'static MockConfig {
    let mut c = MockConfig::new();
    let args = CheckModeArgs { target: Some(System::ITS), path: CmdPathArg::default() };
    c.check = Some(if all { CheckCommands::All(args) } else { CheckCommands::Sanity(args) });
    c.its_trigger_period = period;
    Box::leak(Box::new(c))
}

/// validator (no stave target) in FSM variant `k`, current RDH `rb` at `pos`, `words_before` words already seen
fn validator_in(k: u8, all: bool, period: Option<u16>, rb: &[u8; 64], pos: u64, words_before: u16) -> V {
    let mut v = V::new(leak_cfg(all, period), fake_sender());
    v.its_state_machine = fsm_in_variant(k);
    v.set_current_rdh(&RdhCru::from_buf(&rb[..]).unwrap(), pos);
    super::cdp_tracker::verif_cdp_tracker::set_word_counter(&mut v.tracker, words_before);
    v
}

fn word_pos(rb: &[u8; 64], pos: u64, words_before: u16) -> u64 {
    pos + 64 + words_before as u64 * if rb[24] == 0 { 16 } else { 10 }
}

// @harness id=full_check_arm_ihw props=C09,C02,C01,C07,C04 kind=full tier=quick fns=CdpRunningValidator::check,CdpRunningValidator::preprocess_status_word,CdpRunningValidator::preprocess_ihw,CdpRunningValidator::check_rdh_at_initial_ihw,CdpRunningValidator::report_error,CdpRunningValidator::set_current_rdh,CdpRunningValidator::new stubs=alloc::fmt::format,core::fmt::write,flume::Sender::send
// Initial-IHW arm (implementation states InitialIHW_/IHW_By_WasDdw0): the word is checked as an IHW
// whatever its id; running mode adds the RDH stop-bit rule; the IHW is stored.
#[kani::proof]
#[kani::stub(alloc::fmt::format, stub_format)]
#[kani::stub(core::fmt::write, stub_fmt_write)]
#[kani::stub(flume::Sender::send, stub_send)]
#[kani::unwind(4)]
fn full_check_arm_ihw() {
    let k: u8 = if kani::any() { 0 } else { 10 };
    let all: bool = kani::any();
    let rb: [u8; 64] = kani::any();
    let pos: u64 = kani::any();
    kani::assume(pos < (1u64 << 62));
    let nb: u16 = kani::any();
    kani::assume(nb < 6000);
    let mut v = validator_in(k, all, None, &rb, pos, nb);
    let w: [u8; 10] = kani::any();
    v.check(&w[..]);
    let viol = !spec_ihw_sane(&w) || (all && s_stop_bit(&rb) != 0);
    assert!(!(sent_errors() > 0 && !viol), "[C01][C09] conforming IHW at packet start is not reported");
    assert!(!(sent_errors() == 0 && viol), "[C02][C09] word that is not a sane IHW where an IHW is due (or IHW in a stop-bit packet, running mode) is reported");
    assert!(sent_total() == sent_errors(), "[C01] only error messages are sent by the IHW arm");
    assert!(v.tracker.current_word_mem_pos() == word_pos(&rb, pos, nb), "[C07] errors of this word carry the word's own offset");
    assert!(abs_of(&v.its_state_machine) == Q::Tdh, "[C09] after the IHW a TDH is expected");
    assert!(v.status_words.ihw().unwrap().active_lanes() as u128 == bits(w80(&w), 27, 0), "[C02] the IHW governing later data words is the one just seen");
    core::mem::forget(v);
}

// @harness id=full_check_arm_tdh props=C09,C02,C01,C07,C20,C04 kind=full tier=quick fns=CdpRunningValidator::check,CdpRunningValidator::preprocess_tdh,CdpRunningValidator::check_tdh_no_continuation,CdpRunningValidator::check_tdh_trigger_interval stubs=alloc::fmt::format,core::fmt::write,flume::Sender::send
// TDH arm (state TDH_By_WasIhw): sanity + (running) no-continuation rules + (configured) trigger period.
#[kani::proof]
#[kani::stub(alloc::fmt::format, stub_format)]
#[kani::stub(core::fmt::write, stub_fmt_write)]
#[kani::stub(flume::Sender::send, stub_send)]
#[kani::unwind(6)]
fn full_check_arm_tdh() {
    let all: bool = kani::any();
    let period: Option<u16> = kani::any();
    let rb: [u8; 64] = kani::any();
    let pos: u64 = kani::any();
    kani::assume(pos < (1u64 << 62));
    let nb: u16 = kani::any();
    kani::assume(nb < 6000);
    let mut v = validator_in(1, all, period, &rb, pos, nb);
    // history: an earlier TDH (possibly with internal trigger) and the one before it
    let h1: [u8; 10] = kani::any();
    let h2: [u8; 10] = kani::any();
    let nhist: u8 = kani::any();
    kani::assume(nhist <= 2);
    if nhist >= 2 {
        v.status_words.replace_tdh(Tdh::from_buf(&h2[..]).unwrap());
    }
    if nhist >= 1 {
        v.status_words.replace_tdh(Tdh::from_buf(&h1[..]).unwrap());
    }
    let w: [u8; 10] = kani::any();
    let x = w80(&w);
    // BC values beyond 3563 make the period arithmetic underflow (finding F12): excluded here
    kani::assume(bits(x, 27, 16) <= 3563 && bits(w80(&h1), 27, 16) <= 3563 && bits(w80(&h2), 27, 16) <= 3563);
    v.check(&w[..]);

    let cont = bits(x, 14, 14) == 1;
    let orbit_differs = bits(x, 63, 32) as u32 != s_orbit(&rb);
    let page0_trg = s_pages_counter(&rb) == 0 && (bits(x, 12, 12) == 1 || (s_trigger_type(&rb) >> 4) & 1 == 1);
    let bc_differs = bits(x, 27, 16) as u16 != s_bc(&rb);
    let tt_differs = bits(x, 11, 0) as u16 != (s_trigger_type(&rb) & 0xFFF) as u16;
    let viol_running = cont || orbit_differs || (page0_trg && (bc_differs || tt_differs));
    // previous internal-trigger TDH = latest earlier one with bit 12
    let prev_int: Option<u128> = if nhist >= 1 && bits(w80(&h1), 12, 12) == 1 {
        Some(w80(&h1))
    } else if nhist >= 2 && bits(w80(&h2), 12, 12) == 1 {
        Some(w80(&h2))
    } else {
        None
    };
    let viol_period = match (period, prev_int) {
        (Some(p), Some(q)) if bits(x, 12, 12) == 1 => (bits(x, 27, 16) as u32 + 3564 - bits(q, 27, 16) as u32) % 3564 != p as u32,
        _ => false,
    };
    let viol = !spec_tdh_sane(&w) || (all && (viol_running || viol_period));
    assert!(!(sent_errors() > 0 && !viol), "[C01][C09][C20] conforming TDH after IHW is not reported");
    assert!(!(sent_errors() == 0 && viol), "[C02][C09][C20] TDH breaking a sanity, state-dependent or trigger-period rule is reported");
    assert!(sent_total() == sent_errors(), "[C01] only error messages are sent by the TDH arm");
    assert!(v.tracker.current_word_mem_pos() == word_pos(&rb, pos, nb), "[C07] errors of this word carry the word's own offset");
    assert!(abs_of(&v.its_state_machine) == if bits(x, 13, 13) == 1 { Q::AfterTdhNoData } else { Q::Data }, "[C09] successor follows the no_data bit");
    assert!(*v.status_words.tdh().unwrap() == Tdh::from_buf(&w[..]).unwrap(), "[C02] the TDH just seen becomes the current TDH");
    kani::cover!(viol_period && !viol_running && spec_tdh_sane(&w) && all);
    core::mem::forget(v);
}

