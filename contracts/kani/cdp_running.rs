// Contracts for fastpasta/src/analyze/validators/its/cdp_running.rs (per-arm dispatch harnesses)
#![allow(dead_code, unused_results, clippy::all)]
use super::*;
use crate::analyze::validators::its::its_payload_fsm_cont::verif_fsm::{abs_of, fsm_in_variant};
use crate::config::check::{CheckModeArgs, CmdPathArg};
use crate::verif_support::*;

pub(crate) type V = CdpRunningValidator<RdhCru, MockConfig>;

pub(crate) fn fsm_state_of(v: &V) -> Q {
    abs_of(&v.its_state_machine)
}

fn leak_cfg(all: bool, period: Option<u16>) -> &'static MockConfig {
    let mut c = MockConfig::new();
    let args = CheckModeArgs { target: Some(System::ITS), path: CmdPathArg::default() };
    c.check = Some(if all { CheckCommands::All(args) } else { CheckCommands::Sanity(args) });
    c.its_trigger_period = period;
    Box::leak(Box::new(c))
}

/// validator (no stave target) in FSM variant `k`, current RDH `rb` at `pos`, `words_before` words already seen
pub(crate) fn validator_in(k: u8, all: bool, period: Option<u16>, rb: &[u8; 64], pos: u64, words_before: u16) -> V {
    let mut v = V::new(leak_cfg(all, period), fake_sender());
    v.its_state_machine = fsm_in_variant(k);
    v.set_current_rdh(&RdhCru::from_buf(&rb[..]).unwrap(), pos);
    super::cdp_tracker::verif_cdp_tracker::set_word_counter(&mut v.tracker, words_before);
    v
}

fn word_pos(rb: &[u8; 64], pos: u64, words_before: u16) -> u64 {
    pos + 64 + words_before as u64 * if rb[24] == 0 { 16 } else { 10 }
}


// The whole-arm harnesses (one symbolic word through `check` from a fixed FSM state) exceed the time and
// memory limits in CBMC. The composition is split: the dispatch of `check` is proved by the Verus unit
// v_dispatch against the FSM step contract (full_fsm_step) and the handler contracts below.

struct HandlerRec {
    marker: u64,
    rule_n: u8,
    prf_calls: u32,
    store_calls: u32,
}
// one static with a unique marker (see support.rs)
static mut HR: HandlerRec = HandlerRec { marker: 0x5EED_0000_0000_0007, rule_n: 0, prf_calls: 0, store_calls: 0 };
/// stand-in for a rule function returning Result<(), Vec<String>> (verified separately by Verus unit
/// v_tdh_rules): returns Err with HR.rule_n messages, or Ok when 0.
fn stub_rule_result() -> Result<(), Vec<String>> {
    let n = unsafe { HR.rule_n };
    if n == 0 {
        Ok(())
    } else {
        let mut v = Vec::new();
        v.push(String::new());
        if n > 1 {
            v.push(String::new());
        }
        Err(v)
    }
}
fn stub_check_continuation(_t: &Tdh, _p: Option<&Tdh>) -> Result<(), Vec<String>> {
    stub_rule_result()
}
fn stub_check_tdh_no_continuation<R: RDH>(_t: &Tdh, _r: &R) -> Result<(), Vec<String>> {
    stub_rule_result()
}

fn stub_process_readout_frame<T: RDH, C: ChecksOpt + FilterOpt + CustomChecksOpt>(_v: &mut CdpRunningValidator<T, C>) {
    assert!(false, "[C01][C13] a readout frame is processed only with a stave target");
}

fn std_validator(all: bool, rb: &[u8; 64], pos: u64, nb: u16) -> V {
    validator_in(0, all, None, rb, pos, nb + 1)
}

/// The handlers run from an arbitrary history: each status word seen earlier on the link (if any) is an arbitrary
/// word of its type. A handler whose verdict depends on what was stored before (e.g. skipping the check of a
/// repeated word) is then exposed.
/// what a per-word handler must leave alone: the state machine and the stored words of the OTHER types
fn frame_snapshot(v: &V) -> (Q, Option<Ihw>, Option<Tdt>, Option<Ddw0>) {
    (fsm_state_of(v), v.status_words.ihw().copied(), v.status_words.tdt().copied(), v.status_words.ddw().copied())
}

fn arbitrary_stored_words(v: &mut V) {
    if kani::any() {
        let p: [u8; 10] = kani::any();
        v.status_words.replace_ihw(Ihw::from_buf(&p[..]).unwrap());
    }
    if kani::any() {
        let p: [u8; 10] = kani::any();
        v.status_words.replace_tdt(Tdt::from_buf(&p[..]).unwrap());
    }
    if kani::any() {
        let p: [u8; 10] = kani::any();
        v.status_words.replace_ddw(Ddw0::from_buf(&p[..]).unwrap());
    }
}

// @harness id=full_handler_ihw props=C09,C02,C01,C07,C11,C04 kind=full tier=quick fns=CdpRunningValidator::preprocess_ihw,CdpRunningValidator::report_error,CdpRunningValidator::new,CdpRunningValidator::set_current_rdh stubs=alloc::fmt::format,core::fmt::write,flume::Sender::send
#[kani::proof]
#[kani::stub(alloc::fmt::format, stub_format)]
#[kani::stub(core::fmt::write, stub_fmt_write)]
#[kani::stub(flume::Sender::send, stub_send)]
#[kani::unwind(4)]
fn full_handler_ihw() {
    let rb: [u8; 64] = kani::any();
    let all: bool = kani::any();
    let mut v = std_validator(all, &rb, 64, 0);
    arbitrary_stored_words(&mut v);
    let w: [u8; 10] = kani::any();
    let snap0 = frame_snapshot(&v);
    v.preprocess_ihw(&w[..]);
    let snap1 = frame_snapshot(&v);
    assert!(snap1.0 == snap0.0, "[C09] a word handler does not move the state machine (only `advance` does)");
    assert!(snap1.2 == snap0.2 && snap1.3 == snap0.3, "[C09][C02] a word handler replaces only the stored word of its own type");
    assert!(!(sent_errors() > 0 && spec_ihw_sane(&w)), "[C01][C11] sane IHW is not reported by the IHW handler");
    assert!(!(sent_errors() == 0 && !spec_ihw_sane(&w)), "[C02][C09][C11] a word that is not a sane IHW is reported where an IHW is due");
    assert!(sent_total() == sent_errors() && sent_errors() <= 1, "[C01] at most one message per IHW");
    assert!(v.status_words.ihw().unwrap().active_lanes() as u128 == bits(w80(&w), 27, 0), "[C02] the IHW just seen governs the following data words");
    core::mem::forget(v);
}

// @harness id=full_handler_tdh props=C09,C02,C01,C07,C11,C20,C04 kind=full tier=quick fns=CdpRunningValidator::preprocess_tdh,StatusWordContainer::replace_tdh stubs=alloc::fmt::format,core::fmt::write,flume::Sender::send
#[kani::proof]
#[kani::stub(alloc::fmt::format, stub_format)]
#[kani::stub(core::fmt::write, stub_fmt_write)]
#[kani::stub(flume::Sender::send, stub_send)]
#[kani::unwind(4)]
fn full_handler_tdh() {
    let rb: [u8; 64] = kani::any();
    let all: bool = kani::any();
    let mut v = std_validator(all, &rb, 64, 1);
    let h: [u8; 10] = kani::any();
    let has_prev: bool = kani::any();
    if has_prev {
        v.status_words.replace_tdh(Tdh::from_buf(&h[..]).unwrap());
    }
    let w: [u8; 10] = kani::any();
    let snap0 = frame_snapshot(&v);
    v.preprocess_tdh(&w[..]);
    let snap1 = frame_snapshot(&v);
    assert!(snap1.0 == snap0.0, "[C09] a word handler does not move the state machine (only `advance` does)");
    assert!(snap1.1 == snap0.1 && snap1.2 == snap0.2 && snap1.3 == snap0.3, "[C09][C02] the TDH handler leaves the stored IHW / TDT / DDW0 alone");
    assert!(!(sent_errors() > 0 && spec_tdh_sane(&w)), "[C01][C11] sane TDH is not reported by the TDH handler");
    assert!(!(sent_errors() == 0 && !spec_tdh_sane(&w)), "[C02][C09][C11] a word that is not a sane TDH is reported where a TDH is due");
    assert!(sent_total() == sent_errors() && sent_errors() <= 1, "[C01] at most one message per TDH");
    assert!(*v.status_words.tdh().unwrap() == Tdh::from_buf(&w[..]).unwrap(), "[C02][C20] the TDH just seen becomes the current TDH");
    if has_prev {
        assert!(*v.status_words.prv_tdh().unwrap() == Tdh::from_buf(&h[..]).unwrap(), "[C02][C20] the former current TDH becomes the previous TDH");
    } else {
        assert!(v.status_words.prv_tdh().is_none(), "[C02] no previous TDH before the second one");
    }
    core::mem::forget(v);
}

// @harness id=full_handler_tdt props=C09,C02,C01,C11,C04 kind=full tier=quick fns=CdpRunningValidator::preprocess_tdt,StatusWordContainer::replace_tdt stubs=alloc::fmt::format,core::fmt::write,flume::Sender::send
#[kani::proof]
#[kani::stub(alloc::fmt::format, stub_format)]
#[kani::stub(core::fmt::write, stub_fmt_write)]
#[kani::stub(flume::Sender::send, stub_send)]
#[kani::stub(CdpRunningValidator::process_readout_frame, stub_process_readout_frame)]
#[kani::unwind(4)]
fn full_handler_tdt() {
    let rb: [u8; 64] = kani::any();
    let all: bool = kani::any();
    let mut v = std_validator(all, &rb, 64, 2);
    arbitrary_stored_words(&mut v);
    let w: [u8; 10] = kani::any();
    let snap0 = frame_snapshot(&v);
    v.preprocess_tdt(&w[..]);
    let snap1 = frame_snapshot(&v);
    assert!(snap1.0 == snap0.0, "[C09] a word handler does not move the state machine (only `advance` does)");
    assert!(snap1.1 == snap0.1 && snap1.3 == snap0.3, "[C09][C02] a word handler replaces only the stored word of its own type");
    assert!(!(sent_errors() > 0 && spec_tdt_sane(&w)), "[C01][C11] sane TDT is not reported by the TDT handler");
    assert!(!(sent_errors() == 0 && !spec_tdt_sane(&w)), "[C02][C09][C11] a word that is not a sane TDT is reported");
    assert!(sent_total() == sent_errors() && sent_errors() <= 1, "[C01] at most one message per TDT (no stave target)");
    assert!(*v.status_words.tdt().unwrap() == Tdt::from_buf(&w[..]).unwrap(), "[C02] the TDT just seen is stored");
    core::mem::forget(v);
}

// @harness id=full_handler_ddw0 props=C09,C02,C01,C11,C04 kind=full tier=quick fns=CdpRunningValidator::preprocess_ddw0,CdpRunningValidator::check_rdh_at_ddw0,ItsRdhValidator::check_at_ddw0 stubs=alloc::fmt::format,core::fmt::write,flume::Sender::send
#[kani::proof]
#[kani::stub(alloc::fmt::format, stub_format)]
#[kani::stub(core::fmt::write, stub_fmt_write)]
#[kani::stub(flume::Sender::send, stub_send)]
#[kani::unwind(4)]
fn full_handler_ddw0() {
    let rb: [u8; 64] = kani::any();
    let all: bool = kani::any();
    let mut v = std_validator(all, &rb, 64, 3);
    arbitrary_stored_words(&mut v);
    let w: [u8; 10] = kani::any();
    let snap0 = frame_snapshot(&v);
    v.preprocess_ddw0(&w[..]);
    let snap1 = frame_snapshot(&v);
    assert!(snap1.0 == snap0.0, "[C09] a word handler does not move the state machine (only `advance` does)");
    assert!(snap1.1 == snap0.1 && snap1.2 == snap0.2, "[C09][C02] a word handler replaces only the stored word of its own type");
    let rdh_viol = all && (s_stop_bit(&rb) != 1 || s_pages_counter(&rb) == 0);
    let viol = !spec_ddw0_sane(&w) || rdh_viol;
    assert!(!(sent_errors() > 0 && !viol), "[C01][C11] sane DDW0 in a stop-bit packet is not reported");
    assert!(!(sent_errors() == 0 && viol), "[C02][C09][C11] DDW0 that is not sane, or seen without RDH stop bit / on page 0 (running mode), is reported");
    let expect = (!spec_ddw0_sane(&w)) as u32 + (all && s_stop_bit(&rb) != 1) as u32 + (all && s_pages_counter(&rb) == 0) as u32;
    assert!(sent_errors() == expect && sent_total() == expect, "[C02] one message per broken DDW0 rule");
    assert!(*v.status_words.ddw().unwrap() == Ddw0::from_buf(&w[..]).unwrap(), "[C02] the DDW0 just seen is stored");
    core::mem::forget(v);
}

// @harness id=full_handler_data_word props=C11,C09,C02,C01,C04 kind=full tier=quick fns=CdpRunningValidator::preprocess_data_word,CdpRunningValidator::process_ib_data_word,CdpRunningValidator::process_ob_data_word,CdpRunningValidator::process_cdw,DataWordSanityChecker::check_any,IbDataWordValidator::check,ObDataWordValidator::check stubs=alloc::fmt::format,core::fmt::write,flume::Sender::send
// Data word handler (no stave target): reported iff id outside the valid ranges, lane inactive in the
// governing IHW, or OB connector input > 6 (lane rules only in running mode).
#[kani::proof]
#[kani::stub(alloc::fmt::format, stub_format)]
#[kani::stub(core::fmt::write, stub_fmt_write)]
#[kani::stub(flume::Sender::send, stub_send)]
#[kani::unwind(4)]
#[kani::solver(minisat)]
fn full_handler_data_word() {
    let rb: [u8; 64] = kani::any();
    let all: bool = kani::any();
    let mut v = std_validator(all, &rb, 64, 2);
    let ihw: [u8; 10] = kani::any();
    v.status_words.replace_ihw(Ihw::from_buf(&ihw[..]).unwrap());
    let seen_data: bool = kani::any();
    if seen_data {
        v.tracker.set_data_seen();
    }
    let w: [u8; 10] = kani::any();
    let id = w[9];
    kani::assume(id != ID_CDW || seen_data); // CDW at start of data: see full_handler_cdw
    // OB ids with connector input 7 make the lane shift overflow (finding F6): excluded here, see full_ob_check
    kani::assume(!(spec_is_ob_id(id) && !spec_data_id_valid(id)) || !all);
    let snap0 = frame_snapshot(&v);
    v.preprocess_data_word(&w[..]);
    let snap1 = frame_snapshot(&v);
    assert!(snap1.0 == snap0.0, "[C09] a word handler does not move the state machine (only `advance` does)");
    assert!(snap1.1 == snap0.1 && snap1.2 == snap0.2 && snap1.3 == snap0.3, "[C09][C11] a data word changes no stored status word");
    let mask = bits(w80(&ihw), 27, 0) as u32;
    let lane_viol = if spec_is_ib_id(id) {
        (mask >> spec_ib_lane(id)) & 1 == 0
    } else if spec_is_ob_id(id) {
        !spec_data_id_valid(id) || (mask >> spec_ob_lane(id)) & 1 == 0
    } else {
        false
    };
    let viol = !spec_data_id_valid(id) || (all && lane_viol);
    assert!(!(sent_errors() > 0 && !viol), "[C01][C11] data word with valid id on an active lane is not reported");
    assert!(!(sent_errors() == 0 && viol), "[C02][C11] data word with invalid id, inactive lane or connector input > 6 is reported");
    assert!(sent_total() == sent_errors(), "[C01] only error messages are sent by the data word handler");
    assert!(!v.tracker.start_of_data(), "[C02] after a data word the packet is past start of data");
    kani::cover!(sent_errors() == 0);
    kani::cover!(sent_errors() > 0 && spec_data_id_valid(id));
    core::mem::forget(v);
}

// @harness id=full_handler_cdw props=C02,C01,C04 kind=full tier=quick fns=CdpRunningValidator::preprocess_data_word,CdpRunningValidator::process_cdw,StatusWordContainer::replace_cdw stubs=alloc::fmt::format,core::fmt::write,flume::Sender::send
// CDW at the start of a packet's data: reported iff (running mode) its user fields differ from the
// previous CDW's and its index is not 0.
#[kani::proof]
#[kani::stub(alloc::fmt::format, stub_format)]
#[kani::stub(core::fmt::write, stub_fmt_write)]
#[kani::stub(flume::Sender::send, stub_send)]
#[kani::unwind(4)]
fn full_handler_cdw() {
    let rb: [u8; 64] = kani::any();
    let all: bool = kani::any();
    let mut v = std_validator(all, &rb, 64, 2);
    let p: [u8; 10] = kani::any();
    let has_prev: bool = kani::any();
    if has_prev {
        v.status_words.replace_cdw(Cdw::from_buf(&p[..]).unwrap());
    }
    let mut w: [u8; 10] = kani::any();
    w[9] = ID_CDW;
    let snap0 = frame_snapshot(&v);
    v.preprocess_data_word(&w[..]);
    let snap1 = frame_snapshot(&v);
    assert!(snap1.0 == snap0.0, "[C09] a word handler does not move the state machine (only `advance` does)");
    assert!(snap1.1 == snap0.1 && snap1.2 == snap0.2 && snap1.3 == snap0.3, "[C09] a calibration data word changes no stored IHW / TDT / DDW0");
    let viol = all && has_prev && bits(w80(&w), 47, 0) != bits(w80(&p), 47, 0) && bits(w80(&w), 71, 48) != 0;
    assert!((sent_errors() > 0) == viol, "[C01][C02] CDW is reported iff its user fields changed and its index is not 0 (E81)");
    if all {
        assert!(*v.status_words.cdw().unwrap() == Cdw::from_buf(&w[..]).unwrap(), "[C02] the CDW just seen is stored");
    }
    assert!(!v.tracker.start_of_data(), "[C02] after a CDW the packet is past start of data");
    core::mem::forget(v);
}

// @harness id=full_handler_tdh_after_done props=C02,C01,C04 kind=full tier=quick fns=CdpRunningValidator::check_tdh_by_was_tdt_packet_done_true,TdhValidator::check_after_tdt_packet_done_true stubs=alloc::fmt::format,core::fmt::write,flume::Sender::send
#[kani::proof]
#[kani::stub(alloc::fmt::format, stub_format)]
#[kani::stub(core::fmt::write, stub_fmt_write)]
#[kani::stub(flume::Sender::send, stub_send)]
#[kani::unwind(4)]
fn full_handler_tdh_after_done() {
    let rb: [u8; 64] = kani::any();
    let mut v = std_validator(true, &rb, 64, 1);
    let p: [u8; 10] = kani::any();
    let w: [u8; 10] = kani::any();
    let has_prev: bool = kani::any();
    if has_prev {
        v.status_words.replace_tdh(Tdh::from_buf(&p[..]).unwrap());
    }
    v.status_words.replace_tdh(Tdh::from_buf(&w[..]).unwrap());
    v.check_tdh_by_was_tdt_packet_done_true(&w[..]);
    let viol = has_prev && bits(w80(&p), 27, 16) > bits(w80(&w), 27, 16);
    assert!((sent_errors() == 1) == viol && sent_total() == sent_errors(), "[C01][C02] TDH after a completed packet: one E440 iff its BC is lower than the previous TDH's");
    core::mem::forget(v);
}

// @harness id=full_handler_rule_wrappers props=C02,C01,C04 kind=full tier=quick fns=CdpRunningValidator::check_tdh_continuation,CdpRunningValidator::check_tdh_no_continuation,CdpRunningValidator::check_rdh_at_initial_ihw stubs=alloc::fmt::format,core::fmt::write,flume::Sender::send,TdhValidator::check_continuation,TdhValidator::check_tdh_no_continuation
// Wrappers forward every message of the rule function (rule functions stubbed by their Verus-proved
// contract: Err with one message per broken rule) to the error channel.
#[kani::proof]
#[kani::stub(alloc::fmt::format, stub_format)]
#[kani::stub(core::fmt::write, stub_fmt_write)]
#[kani::stub(flume::Sender::send, stub_send)]
#[kani::stub(TdhValidator::check_continuation, stub_check_continuation)]
#[kani::stub(TdhValidator::check_tdh_no_continuation, stub_check_tdh_no_continuation)]
#[kani::unwind(4)]
fn full_handler_rule_wrappers() {
    let rb: [u8; 64] = kani::any();
    let mut v = std_validator(true, &rb, 64, 1);
    let w: [u8; 10] = kani::any();
    v.status_words.replace_tdh(Tdh::from_buf(&w[..]).unwrap());
    let n: u8 = kani::any();
    kani::assume(n <= 2);
    unsafe { HR.rule_n = n };
    let which: u8 = kani::any();
    kani::assume(which <= 2);
    if which == 0 {
        v.check_tdh_continuation(&w[..]);
        assert!(sent_errors() == n as u32 && sent_total() == n as u32, "[C01][C02] every broken continuation-TDH rule yields exactly one message");
    } else if which == 1 {
        v.check_tdh_no_continuation(&w[..]);
        assert!(sent_errors() == n as u32 && sent_total() == n as u32, "[C01][C02] every broken TDH-after-IHW rule yields exactly one message");
    } else {
        v.check_rdh_at_initial_ihw(&w[..]);
        let e = (s_stop_bit(&rb) != 0) as u32;
        assert!(sent_errors() == e && sent_total() == e, "[C01][C02] initial IHW in a stop-bit packet yields exactly one message (E12)");
    }
    core::mem::forget(v);
}

// @harness id=full_handler_trigger_interval props=C20,C02,C01,C04 kind=full tier=quick fns=CdpRunningValidator::check_tdh_trigger_interval,TdhValidator::check_trigger_interval stubs=alloc::fmt::format,core::fmt::write,flume::Sender::send
// The period check runs iff a period is configured, a previous internal-trigger TDH exists and the
// current TDH has the internal trigger bit; it reports iff the BC distance mod 3564 differs.
#[kani::proof]
#[kani::stub(alloc::fmt::format, stub_format)]
#[kani::stub(core::fmt::write, stub_fmt_write)]
#[kani::stub(flume::Sender::send, stub_send)]
#[kani::unwind(4)]
fn full_handler_trigger_interval() {
    let rb: [u8; 64] = kani::any();
    let period: Option<u16> = kani::any();
    let mut v = validator_in(0, true, period, &rb, 64, 2);
    let a: [u8; 10] = kani::any();
    let b: [u8; 10] = kani::any();
    let w: [u8; 10] = kani::any();
    let nhist: u8 = kani::any();
    kani::assume(nhist <= 2);
    if nhist >= 2 {
        v.status_words.replace_tdh(Tdh::from_buf(&a[..]).unwrap());
    }
    if nhist >= 1 {
        v.status_words.replace_tdh(Tdh::from_buf(&b[..]).unwrap());
    }
    v.status_words.replace_tdh(Tdh::from_buf(&w[..]).unwrap());
    let x = w80(&w);
    kani::assume(bits(x, 27, 16) <= 3563 && bits(w80(&a), 27, 16) <= 3563 && bits(w80(&b), 27, 16) <= 3563); // BC > 3563: finding F12
    v.check_tdh_trigger_interval(&w[..]);
    let prev_int: Option<u128> = if nhist >= 1 && bits(w80(&b), 12, 12) == 1 {
        Some(w80(&b))
    } else if nhist >= 2 && bits(w80(&a), 12, 12) == 1 {
        Some(w80(&a))
    } else {
        None
    };
    let viol = match (period, prev_int) {
        (Some(p), Some(q)) if bits(x, 12, 12) == 1 => (bits(x, 27, 16) as u32 + 3564 - bits(q, 27, 16) as u32) % 3564 != p as u32,
        _ => false,
    };
    assert!((sent_errors() == 1) == viol && sent_total() == sent_errors(), "[C20] exactly the consecutive internal-trigger TDHs whose BC distance mod 3564 differs from P are reported (E45)");
    kani::cover!(viol);
    kani::cover!(!viol && period.is_some() && prev_int.is_some() && bits(x, 12, 12) == 1);
    core::mem::forget(v);
}

// ------------------------------------------------------------------ stave mode (readout frame bookkeeping)
fn leak_cfg_stave() -> &'static MockConfig {
    let mut c = MockConfig::new();
    c.check = Some(CheckCommands::All(CheckModeArgs { target: Some(System::ITS_Stave), path: CmdPathArg::default() }));
    Box::leak(Box::new(c))
}
fn stave_validator(rb: &[u8; 64], pos: u64, words_before: u16) -> V {
    let mut v = V::new(leak_cfg_stave(), fake_sender());
    v.set_current_rdh(&RdhCru::from_buf(&rb[..]).unwrap(), pos);
    super::cdp_tracker::verif_cdp_tracker::set_word_counter(&mut v.tracker, words_before + 1);
    v
}

fn stub_process_readout_frame_count<T: RDH, C: ChecksOpt + FilterOpt + CustomChecksOpt>(_v: &mut CdpRunningValidator<T, C>) {
    unsafe { HR.prf_calls += 1 };
}
fn stub_store_lane_data<C: CustomChecksOpt>(_v: &mut super::readout_frame::ItsReadoutFrameValidator<C>, _w: &[u8]) {
    unsafe { HR.store_calls += 1 };
}
// @harness id=full_handler_tdh_stave props=C13,C09,C01,C02,C07,C04 kind=full tier=quick fns=CdpRunningValidator::preprocess_tdh,ItsReadoutFrameValidator::new_frame,ItsReadoutFrameValidator::is_in_frame,CdpRunningValidator::set_current_rdh stubs=alloc::fmt::format,core::fmt::write,flume::Sender::send
// Stave mode: a TDH without continuation opens a readout frame at its own offset unless one is open;
// a continuation TDH never opens one.
#[kani::proof]
#[kani::stub(alloc::fmt::format, stub_format)]
#[kani::stub(core::fmt::write, stub_fmt_write)]
#[kani::stub(flume::Sender::send, stub_send)]
#[kani::unwind(4)]
fn full_handler_tdh_stave() {
    let rb: [u8; 64] = kani::any();
    let pos: u64 = kani::any();
    kani::assume(pos < (1 << 62));
    let nb: u16 = kani::any();
    kani::assume(nb < 6000);
    let mut v = stave_validator(&rb, pos, nb);
    let open_before: bool = kani::any();
    let prev_start: u64 = kani::any();
    if open_before {
        v.readout_frame_validator.as_mut().unwrap().new_frame(prev_start);
    }
    let w: [u8; 10] = kani::any();
    v.preprocess_tdh(&w[..]);
    let cont = bits(w80(&w), 14, 14) == 1;
    let rfv = v.readout_frame_validator.as_ref().unwrap();
    let here = word_pos(&rb, pos, nb);
    assert!(rfv.is_in_frame() == (open_before || !cont), "[C13][C01][C02] a readout frame starts at a TDH without continuation");
    let start = super::readout_frame::verif_rf_validator::frame_start_of(rfv);
    if open_before {
        assert!(start == Some(prev_start), "[C13][C07] an open frame keeps its start offset");
    } else if !cont {
        assert!(start == Some(here), "[C13][C07] the frame's start offset is the offset of its TDH");
    } else {
        assert!(start.is_none(), "[C13] a continuation TDH does not open a frame");
    }
    assert!((sent_errors() > 0) == !spec_tdh_sane(&w), "[C01][C02][C11] TDH sanity is reported as in the other modes");
    core::mem::forget(v);
}

// @harness id=full_handler_tdt_stave props=C13,C09,C01,C02,C04 kind=full tier=quick fns=CdpRunningValidator::preprocess_tdt stubs=alloc::fmt::format,core::fmt::write,flume::Sender::send,CdpRunningValidator::process_readout_frame
// Stave mode: the readout frame is processed exactly at a TDT with packet_done (after the TDT is stored).
#[kani::proof]
#[kani::stub(alloc::fmt::format, stub_format)]
#[kani::stub(core::fmt::write, stub_fmt_write)]
#[kani::stub(flume::Sender::send, stub_send)]
#[kani::stub(CdpRunningValidator::process_readout_frame, stub_process_readout_frame_count)]
#[kani::unwind(4)]
fn full_handler_tdt_stave() {
    let rb: [u8; 64] = kani::any();
    let mut v = stave_validator(&rb, 64, 2);
    let w: [u8; 10] = kani::any();
    v.preprocess_tdt(&w[..]);
    let done = bits(w80(&w), 64, 64) == 1;
    assert!(unsafe { HR.prf_calls } == done as u32, "[C13][C01][C02] a readout frame ends (and is processed) exactly at a TDT with packet_done");
    assert!(*v.status_words.tdt().unwrap() == Tdt::from_buf(&w[..]).unwrap(), "[C02] the TDT is stored before the frame is processed");
    assert!((sent_errors() > 0) == !spec_tdt_sane(&w), "[C01][C02][C11] TDT sanity is reported as in the other modes");
    core::mem::forget(v);
}

// @harness id=full_handler_data_word_stave props=C13,C11,C01,C02,C04 kind=full tier=quick fns=CdpRunningValidator::preprocess_data_word,CdpRunningValidator::process_ib_data_word,CdpRunningValidator::process_ob_data_word stubs=alloc::fmt::format,core::fmt::write,flume::Sender::send,ItsReadoutFrameValidator::store_lane_data
// Stave mode: every inner/outer barrel data word (id[7:5] = 001 / 010) is stored for the ALPIDE checks exactly once.
#[kani::proof]
#[kani::stub(alloc::fmt::format, stub_format)]
#[kani::stub(core::fmt::write, stub_fmt_write)]
#[kani::stub(flume::Sender::send, stub_send)]
#[kani::stub(super::readout_frame::ItsReadoutFrameValidator::store_lane_data, stub_store_lane_data)]
#[kani::unwind(4)]
#[kani::solver(minisat)]
fn full_handler_data_word_stave() {
    let rb: [u8; 64] = kani::any();
    let mut v = stave_validator(&rb, 64, 2);
    let ihw: [u8; 10] = kani::any();
    v.status_words.replace_ihw(Ihw::from_buf(&ihw[..]).unwrap());
    v.tracker.set_data_seen();
    let w: [u8; 10] = kani::any();
    let id = w[9];
    kani::assume(!(spec_is_ob_id(id) && !spec_data_id_valid(id)));
    v.preprocess_data_word(&w[..]);
    let stored = spec_is_ib_id(id) || spec_is_ob_id(id);
    assert!(unsafe { HR.store_calls } == stored as u32, "[C13][C01][C02] lane data of every IB/OB data word is stored exactly once for the frame checks");
    core::mem::forget(v);
}
