// Contracts for fastpasta/src/stats/stats_collector.rs (+ rdh_stats.rs, error_stats.rs accessors)
#![allow(dead_code, unused_results, clippy::all)]
use super::*;

// @harness id=full_collector_rdh_seen props=C14,C05,C16,C04 kind=full tier=quick fns=StatsCollector::collect,RdhStats::add_rdhs_seen,StatsCollector::rdhs_seen,StatsCollector::any_rdhs_seen
// Routing of this numeric statistics kind to its accumulator only, and commutativity of two updates.
#[kani::proof]
#[kani::unwind(4)]
fn full_collector_rdh_seen() {
    collector_counters_case(0);
}

// @harness id=full_collector_rdh_filtered props=C14,C05,C16,C04 kind=full tier=quick fns=StatsCollector::collect,RdhStats::add_rdhs_filtered
// Routing of this numeric statistics kind to its accumulator only, and commutativity of two updates.
#[kani::proof]
#[kani::unwind(4)]
fn full_collector_rdh_filtered() {
    collector_counters_case(1);
}

// @harness id=full_collector_payload_size props=C14,C05,C16,C04 kind=full tier=quick fns=StatsCollector::collect,RdhStats::add_payload_size,StatsCollector::payload_size
// Routing of this numeric statistics kind to its accumulator only, and commutativity of two updates.
#[kani::proof]
#[kani::unwind(4)]
fn full_collector_payload_size() {
    collector_counters_case(2);
}

// @harness id=full_collector_hbfs_seen props=C14,C05,C16,C04 kind=full tier=quick fns=StatsCollector::collect,RdhStats::add_hbfs_seen,StatsCollector::hbfs_seen
// Routing of this numeric statistics kind to its accumulator only, and commutativity of two updates.
#[kani::proof]
#[kani::unwind(4)]
fn full_collector_hbfs_seen() {
    collector_counters_case(3);
}

// @harness id=full_collector_trigger_type props=C14,C05,C16,C04 kind=full tier=quick fns=StatsCollector::collect,RdhStats::record_trigger_type
// Same for the trigger-type kind (split off: the whole-collector comparison with the per-bit counters is the
// expensive part; one harness for all five kinds needed 9.9 GB).
#[kani::proof]
#[kani::unwind(4)]
fn full_collector_trigger_type() {
    collector_counters_case(4);
}

fn collector_counters_case(k: u8) {
    let mut c = StatsCollector::default();
    let (a, b): (u32, u32) = (kani::any(), kani::any());
    let mk = |k: u8, v: u32| match k {
        0 => StatType::RDHSeen(v),
        1 => StatType::RDHFiltered(v),
        2 => StatType::PayloadSize(v),
        3 => StatType::HBFsSeen(v),
        _ => StatType::TriggerType(v),
    };
    kani::assume(k != 3 || (a as u64 + b as u64) <= u32::MAX as u64); // HBF counter is a u32
    c.collect(mk(k, a));
    c.collect(mk(k, b));
    let sum = a as u64 + b as u64;
    assert!(c.rdhs_seen() == if k == 0 { sum } else { 0 }, "[C14] RDHSeen updates are summed into the RDH count only");
    assert!(c.rdh_stats().rdhs_filtered() == if k == 1 { sum } else { 0 }, "[C14] RDHFiltered updates are summed into the filtered count only");
    assert!(c.payload_size() == if k == 2 { sum } else { 0 }, "[C14] PayloadSize updates are summed into the payload total only");
    assert!(c.hbfs_seen() as u64 == if k == 3 { sum } else { 0 }, "[C14] HBFsSeen updates are summed into the HBF count only");
    assert!(c.any_rdhs_seen() == (k == 0 && sum > 0), "[C14] any_rdhs_seen iff the RDH count is positive");
    assert!(c.err_count() == 0 && !c.any_errors() && !c.any_fatal_err(), "[C16] statistics updates are not errors");
    // order insensitivity
    let mut d = StatsCollector::default();
    d.collect(mk(k, b));
    d.collect(mk(k, a));
    assert!(c == d, "[C05] numeric statistics accumulate commutatively");
}

// @harness id=full_collector_errors props=C16,C14,C04 kind=full tier=quick fns=StatsCollector::collect,ErrorStats::add_err,ErrorStats::add_fatal_err,ErrorStats::add_custom_check_error,ErrorStats::err_count,StatsCollector::any_errors,StatsCollector::any_fatal_err,StatsCollector::err_count
// Error accounting: total == number of reported + custom-check errors; a fatal error is recorded.
#[kani::proof]
#[kani::unwind(5)]
fn full_collector_errors() {
    let mut c = StatsCollector::default();
    let n: u8 = kani::any();
    kani::assume(n <= 3);
    let mut i = 0;
    while i < n {
        c.collect(StatType::Error("".into()));
        i += 1;
    }
    assert!(c.err_count() == n as u64, "[C16][C14] the error total equals the number of error messages collected");
    assert!(c.any_errors() == (n > 0), "[C16] any_errors iff at least one error was collected");
    assert!(c.error_stats().errors_as_slice_iter().count() == n as usize, "[C16] every collected message is kept for display");
    let fatal: bool = kani::any();
    if fatal {
        c.collect(StatType::Fatal("".into()));
    }
    assert!(c.any_fatal_err() == fatal, "[C16] a fatal input error is recorded");
    assert!(c.err_count() == n as u64, "[C16] a fatal error is not counted twice");
}
