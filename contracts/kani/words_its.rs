// Contracts for fastpasta/src/words/its.rs
#![allow(dead_code, unused_results, clippy::all)]
use super::*;

// @harness id=full_feeid_fields props=C10,C13,C14,C04 kind=full tier=quick fns=layer_from_feeid,stave_number_from_feeid,feeid_from_layer_stave,is_match_feeid_layer_stave
#[kani::proof]
fn full_feeid_fields() {
    let f: u16 = kani::any();
    assert!(layer_from_feeid(f) == ((f >> 12) & 0b111) as u8, "[C10][C14] layer is FEE id bits 14:12");
    assert!(stave_number_from_feeid(f) == (f & 0x3F) as u8, "[C10][C14] stave number is FEE id bits 5:0");
    let (l, s): (u8, u8) = (kani::any(), kani::any());
    kani::assume(l <= 7 && s <= 63);
    let g = feeid_from_layer_stave(l, s);
    assert!(layer_from_feeid(g) == l && stave_number_from_feeid(g) == s, "[C14] FEE id built from layer/stave decodes back");
    let h: u16 = kani::any();
    assert!(is_match_feeid_layer_stave(f, h) == (layer_from_feeid(f) == layer_from_feeid(h) && stave_number_from_feeid(f) == stave_number_from_feeid(h)), "[C08] layer/stave match compares exactly layer and stave");
}

// @harness id=full_stave_from_feeid props=C13,C04 kind=full tier=quick fns=Stave::from_feeid,Layer::from_stave,Stave::layer,Stave::stave
// Any FEE id (no precondition): layers 0-2 inner, 3-4 middle, 5-6 outer barrel.
#[kani::proof]
fn full_stave_from_feeid() {
    let f: u16 = kani::any();
    let st = Stave::from_feeid(f);
    let l = ((f >> 12) & 0b111) as u8;
    assert!(st.layer() == l && st.stave() == (f & 0x3F) as u8, "[C13] stave carries the FEE id's layer and stave number");
    let barrel = Layer::from_stave(&st);
    if l <= 2 {
        assert!(barrel == Layer::Inner, "[C13] layers 0-2 are inner barrel");
    } else if l <= 4 {
        assert!(barrel == Layer::Middle, "[C13] layers 3-4 are middle barrel");
    } else if l <= 6 {
        assert!(barrel == Layer::Outer, "[C13] layers 5-6 are outer barrel");
    }
}
