// Support for harnesses: construct a CustomChecks value (fields are private to this module)
#![allow(dead_code, unused_results, clippy::all)]
use super::*;

pub(crate) fn mk_custom_checks(cdps: Option<u32>, triggers_pht: Option<u32>, orders_some_empty: bool,
                               chip_count_ob: Option<u8>, rdh_version: Option<u8>) -> CustomChecks {
    CustomChecks {
        cdps,
        triggers_pht,
        chip_orders_ob: if orders_some_empty { Some(Vec::new()) } else { None },
        chip_count_ob,
        rdh_version,
    }
}

// @harness id=full_custom_checks_accessors props=C20,C04 kind=full tier=quick fns=CustomChecks::cdps,CustomChecks::triggers_pht,CustomChecks::chip_count_ob,CustomChecks::rdh_version,CustomChecks::chip_orders_ob
#[kani::proof]
#[kani::unwind(4)]
fn full_custom_checks_accessors() {
    let (a, b, o, c, v): (Option<u32>, Option<u32>, bool, Option<u8>, Option<u8>) = (kani::any(), kani::any(), kani::any(), kani::any(), kani::any());
    let cc = mk_custom_checks(a, b, o, c, v);
    assert!(cc.cdps() == a && cc.triggers_pht() == b && cc.chip_count_ob() == c && cc.rdh_version() == v && cc.chip_orders_ob().is_some() == o, "[C20] every configured key is returned as configured");
    assert!((cc == CustomChecks::default()) == (a.is_none() && b.is_none() && !o && c.is_none() && v.is_none()), "[C20] a file with no key set equals the default (changes nothing)");
}
