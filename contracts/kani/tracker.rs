// Contracts for alice_protocol_reader/src/mem_pos_tracker.rs
#![allow(dead_code, unused_results, clippy::all)]
use super::*;

// @harness id=full_mem_pos_tracker props=C03,C07,C04 kind=full tier=quick fns=MemPosTracker::new,MemPosTracker::next,MemPosTracker::current_mem_address,MemPosTracker::update_mem_address
#[kani::proof]
fn full_mem_pos_tracker() {
    let t0 = MemPosTracker::new();
    assert!(t0.current_mem_address() == 0, "[C03] tracking starts at offset 0");
    let d = MemPosTracker::default();
    assert!(d.current_mem_address() == 0, "[C03] default tracker starts at offset 0");
    let mut t = MemPosTracker::new();
    let addr: u64 = kani::any();
    kani::assume(addr < (1u64 << 63));
    t.memory_address_bytes = addr;
    let off: u16 = kani::any();
    kani::assume(off >= 64); // precondition established by sanity_check_offset_next at every call site
    let rel = t.next(off as u64);
    assert!(rel == off as i64 - 64, "[C03] seek distance to the next RDH is offset_to_next - 64");
    assert!(t.current_mem_address() == addr + off as u64, "[C03][C07] skipping a packet advances the offset by its offset_to_next");
    let off2: u16 = kani::any();
    t.update_mem_address(off2 as u64);
    assert!(t.current_mem_address() == addr + off as u64 + off2 as u64, "[C03][C07] loading a packet advances the offset by its offset_to_next");
}
