// Contracts for fastpasta/src/analyze/validators/its/its_payload_fsm_cont.rs
// (child module: sees the private `state_machine` field and the sm!-generated types)
#![allow(dead_code, unused_results, clippy::all, non_snake_case)]
use super::ITS_Payload_Continuous::Variant as V;
use super::*;
use crate::verif_support::*;

const W_ANY: [u8; 10] = [0; 10];
const W_TDH_DATA: [u8; 10] = [0x03, 0x00, 0, 0, 0, 0, 0, 0, 0, 0xE8];
const W_TDH_NODATA: [u8; 10] = [0x03, 0x20, 0, 0, 0, 0, 0, 0, 0, 0xE8];
const W_DATA: [u8; 10] = [0, 0, 0, 0, 0, 0, 0, 0, 0, 0x20];
const W_TDT_DONE: [u8; 10] = [0, 0, 0, 0, 0, 0, 0, 0, 1, 0xF0];
const W_TDT_SPLIT: [u8; 10] = [0, 0, 0, 0, 0, 0, 0, 0, 0, 0xF0];
const W_DDW0: [u8; 10] = [0, 0, 0, 0, 0, 0, 0, 0, 0, 0xE4];

/// abstraction function: implementation variant -> diagram state
pub(crate) fn abs(v: &V) -> Q {
    match v {
        V::InitialIHW_(_) | V::IHW_By_WasDdw0(_) => Q::Ihw,
        V::TDH_By_WasIhw(_) => Q::Tdh,
        V::DATA_By_NoDataFalse(_) | V::DATA_By_WasData(_) => Q::Data,
        V::DDW0_or_TDH_or_IHW_By_NoDataTrue(_) => Q::AfterTdhNoData,
        V::DDW0_or_TDH_or_IHW_By_WasTDTpacketDoneTrue(_) => Q::AfterTdtDone,
        V::c_IHW_By_WasTDTpacketDoneFalse(_) => Q::CIhw,
        V::c_TDH_By_Next(_) => Q::CTdh,
        V::c_DATA_By_Next(_) | V::c_DATA_By_WasData(_) => Q::CData,
    }
}
pub(crate) fn variant_index(v: &V) -> u8 {
    match v {
        V::InitialIHW_(_) => 0,
        V::TDH_By_WasIhw(_) => 1,
        V::DATA_By_NoDataFalse(_) => 2,
        V::DDW0_or_TDH_or_IHW_By_NoDataTrue(_) => 3,
        V::DATA_By_WasData(_) => 4,
        V::c_IHW_By_WasTDTpacketDoneFalse(_) => 5,
        V::DDW0_or_TDH_or_IHW_By_WasTDTpacketDoneTrue(_) => 6,
        V::c_TDH_By_Next(_) => 7,
        V::c_DATA_By_Next(_) => 8,
        V::c_DATA_By_WasData(_) => 9,
        V::IHW_By_WasDdw0(_) => 10,
    }
}
pub(crate) fn abs_of(fsm: &ItsPayloadFsmContinuous) -> Q {
    abs(&fsm.state_machine)
}
pub(crate) fn cls_of(r: &Result<ItsPayloadWord, AmbigiousError>) -> Cls {
    match r {
        Ok(ItsPayloadWord::IHW) => Cls::Ihw,
        Ok(ItsPayloadWord::IHW_continuation) => Cls::IhwCont,
        Ok(ItsPayloadWord::TDH) => Cls::Tdh,
        Ok(ItsPayloadWord::TDH_continuation) => Cls::TdhCont,
        Ok(ItsPayloadWord::TDH_after_packet_done) => Cls::TdhAfterDone,
        Ok(ItsPayloadWord::TDT) => Cls::Tdt,
        Ok(ItsPayloadWord::CDW) => Cls::Cdw,
        Ok(ItsPayloadWord::DataWord) => Cls::Data,
        Ok(ItsPayloadWord::DDW0) => Cls::Ddw0,
        Err(_) => Cls::Illegal,
    }
}

/// Drive the real FSM from `new()` along a fixed concrete path to implementation variant `k`
/// (0..=10; the `match` in `advance` lists exactly these 11 variants).
pub(crate) fn fsm_in_variant(k: u8) -> ItsPayloadFsmContinuous {
    let mut f = ItsPayloadFsmContinuous::new();
    if k == 0 {
        return f;
    }
    let _ = f.advance(&W_ANY[..]); // -> TDH_By_WasIhw
    if k == 1 {
        return f;
    }
    if k == 3 || k == 10 {
        let _ = f.advance(&W_TDH_NODATA[..]); // -> DDW0_or_TDH_or_IHW_By_NoDataTrue
        if k == 10 {
            let _ = f.advance(&W_DDW0[..]); // -> IHW_By_WasDdw0
        }
        return f;
    }
    let _ = f.advance(&W_TDH_DATA[..]); // -> DATA_By_NoDataFalse
    if k == 2 {
        return f;
    }
    if k == 4 {
        let _ = f.advance(&W_DATA[..]); // -> DATA_By_WasData
        return f;
    }
    if k == 6 {
        let _ = f.advance(&W_TDT_DONE[..]); // -> DDW0_or_TDH_or_IHW_By_WasTDTpacketDoneTrue
        return f;
    }
    let _ = f.advance(&W_TDT_SPLIT[..]); // -> c_IHW_By_WasTDTpacketDoneFalse
    if k == 5 {
        return f;
    }
    let _ = f.advance(&W_ANY[..]); // -> c_TDH_By_Next
    if k == 7 {
        return f;
    }
    let _ = f.advance(&W_ANY[..]); // -> c_DATA_By_Next
    if k == 8 {
        return f;
    }
    let _ = f.advance(&W_DATA[..]); // -> c_DATA_By_WasData
    f
}

// @harness id=full_fsm_step props=C09,C01,C02,C04 kind=full tier=quick fns=ItsPayloadFsmContinuous::advance,ItsPayloadFsmContinuous::new,tdh_no_data,tdt_packet_done
// One step of the real FSM from each of the 11 implementation variants on a fully symbolic
// 80-bit word equals the diagram's step (class and successor).
#[kani::proof]
fn full_fsm_step() {
    let k: u8 = kani::any();
    kani::assume(k <= 10);
    let mut f = fsm_in_variant(k);
    assert!(variant_index(&f.state_machine) == k, "[C09][C01][C02] path reaches the intended implementation state");
    let q = abs(&f.state_machine);
    let w: [u8; 10] = kani::any();
    let r = f.advance(&w[..]);
    let (cls, next) = spec_step(q, &w);
    let got = cls_of(&r);
    if cls == Cls::Illegal {
        assert!(got == Cls::Illegal, "[C09][C02] word whose id is illegal in a choice state is never silently accepted");
        match (q, &r) {
            (Q::Data | Q::CData, Err(AmbigiousError::DW_or_TDT_CDW)) => (),
            (Q::AfterTdhNoData, Err(AmbigiousError::TDH_or_DDW0)) => (),
            (Q::AfterTdtDone, Err(AmbigiousError::DDW0_or_TDH_IHW)) => (),
            _ => assert!(false, "[C09][C02] illegal word is reported with the ambiguity class of its choice state"),
        }
    } else {
        assert!(got != Cls::Illegal, "[C09][C01] word legal in the current state is not rejected");
        assert!(got == cls, "[C09][C01][C02] word is classified as the diagram prescribes (the class selects the checks that run)");
        assert!(Some(abs(&f.state_machine)) == next, "[C09][C01][C02] successor state is the diagram's successor");
    }
    // reachability of every implementation variant and of both outcomes
    kani::cover!(k == 0);
    kani::cover!(k == 10);
    kani::cover!(cls == Cls::Illegal);
    kani::cover!(cls == Cls::Tdt && next == Some(Q::CIhw));
}

// @harness id=full_fsm_reset props=C09,C12 kind=full tier=quick fns=ItsPayloadFsmContinuous::reset_fsm
#[kani::proof]
fn full_fsm_reset() {
    let k: u8 = kani::any();
    kani::assume(k <= 10);
    let mut f = fsm_in_variant(k);
    f.reset_fsm();
    assert!(abs(&f.state_machine) == Q::Ihw, "[C09][C12] reset_fsm returns to the initial (IHW) state");
    let d = ItsPayloadFsmContinuous::default();
    assert!(abs(&d.state_machine) == Q::Ihw, "[C09] default() starts in the initial (IHW) state");
}

// @harness id=neg_fsm_step props=C09 kind=neg tier=quick expect=fail fns=ItsPayloadFsmContinuous::advance
// Vacuity guard: a deliberately wrong claim (CDW is illegal in Data) must FAIL.
#[kani::proof]
fn neg_fsm_step() {
    let mut f = fsm_in_variant(2);
    let w: [u8; 10] = kani::any();
    let r = f.advance(&w[..]);
    if w[9] == ID_CDW {
        assert!(r.is_err(), "[NEG] deliberately false");
    }
}
