// Contracts for fastpasta/src/analyze/validators/rdh.rs
#![allow(dead_code, unused_results, clippy::all)]
use super::*;
use crate::verif_support::*;

fn rdh_from(b: &[u8; 64]) -> RdhCru {
    RdhCru::from_buf(&b[..]).unwrap()
}

// @harness id=full_rdh_sanity_default props=C10,C01,C02,C04 kind=full tier=quick fns=RdhCruSanityValidator::sanity_check,RdhCruSanityValidator::new,Rdh0Validator::sanity_check,Rdh1Validator::sanity_check,Rdh2Validator::sanity_check,Rdh3Validator::sanity_check,FeeIdSanityValidator::sanity_check,stave_number_from_feeid,layer_from_feeid stubs=core::fmt::write,alloc::fmt::format
// No target: first header fixes the expected header id; second header checked against it.
#[kani::proof]
#[kani::stub(core::fmt::write, stub_fmt_write)]
#[kani::stub(alloc::fmt::format, stub_format_nonempty)]
fn full_rdh_sanity_default() {
    let mut v = RdhCruSanityValidator::<RdhCru>::new();
    let b: [u8; 64] = kani::any();
    let r = v.sanity_check(&rdh_from(&b));
    let sane = spec_rdh_sane(&b, b[0], false);
    assert!(!(r.is_err() && sane), "[C10][C01] first RDH satisfying every documented sanity condition passes");
    assert!(!(r.is_ok() && !sane), "[C10][C02] first RDH violating a documented sanity condition fails");
    assert!(v.rdh0_validator.header_id == Some(b[0]), "[C10] first header id seen is remembered");
    kani::cover!(r.is_ok());
    kani::cover!(r.is_err());
}

// @harness id=full_rdh_sanity_second props=C10,C01,C02,C04 kind=full tier=quick fns=RdhCruSanityValidator::sanity_check,Rdh0Validator::sanity_check stubs=core::fmt::write,alloc::fmt::format
// Any validator state (first header id already seen, any value; ITS specialisation on/off).
#[kani::proof]
#[kani::stub(core::fmt::write, stub_fmt_write)]
#[kani::stub(alloc::fmt::format, stub_format_nonempty)]
fn full_rdh_sanity_second() {
    let its: bool = kani::any();
    let mut v = if its {
        RdhCruSanityValidator::<RdhCru>::with_specialization(SpecializeChecks::ITS)
    } else {
        RdhCruSanityValidator::<RdhCru>::new()
    };
    let first: u8 = kani::any();
    v.rdh0_validator.header_id = Some(first);
    let b: [u8; 64] = kani::any();
    let r = v.sanity_check(&rdh_from(&b));
    let sane = spec_rdh_sane(&b, first, its);
    assert!(!(r.is_err() && sane), "[C10][C01] RDH satisfying every documented sanity condition passes");
    assert!(!(r.is_ok() && !sane), "[C10][C02] RDH violating a documented sanity condition fails");
    assert!(v.rdh0_validator.header_id == Some(first), "[C10] expected header id is not changed by later headers");
    kani::cover!(r.is_ok() && its);
    kani::cover!(r.is_err() && !its);
}

// @harness id=neg_rdh_sanity props=C10 kind=neg tier=quick expect=fail fns=RdhCruSanityValidator::sanity_check
#[kani::proof]
#[kani::stub(core::fmt::write, stub_fmt_write)]
#[kani::stub(alloc::fmt::format, stub_format_nonempty)]
fn neg_rdh_sanity() {
    let mut v = RdhCruSanityValidator::<RdhCru>::new();
    let b: [u8; 64] = kani::any();
    let r = v.sanity_check(&rdh_from(&b));
    // deliberately false: claims the CRU reserved bytes 40..48 are checked
    assert!(!(r.is_ok() && b[40] != 0), "[NEG] deliberately false");
}

use crate::config::check::{CheckModeArgs, CmdPathArg};
use crate::config::custom_checks::custom_checks_cfg::verif_custom_cfg::mk_custom_checks;

// @harness id=full_rdh_validator_from_config props=C10,C20,C01,C02,C04 kind=full tier=quick fns=RdhCruSanityValidator::new_from_config,RdhCruSanityValidator::with_custom_checks,RdhCruSanityValidator::with_specialization,RdhCruSanityValidator::specialize,RdhCruSanityValidator::new
// Which sanity validator is built for which command line: the ITS system id is required exactly with an
// ITS / ITS-stave target; a configured RDH version fixes the expected header id, otherwise the first header
// seen does; an all-default custom-checks file changes nothing.
#[kani::proof]
#[kani::unwind(4)]
fn full_rdh_validator_from_config() {
    let all: bool = kani::any();
    let tgt: u8 = kani::any();
    kani::assume(tgt <= 2);
    let target = match tgt { 0 => None, 1 => Some(System::ITS), _ => Some(System::ITS_Stave) };
    let args = CheckModeArgs { target, path: CmdPathArg::default() };
    let mut c = MockConfig::new();
    c.check = Some(if all { CheckCommands::All(args) } else { CheckCommands::Sanity(args) });
    let has_file: bool = kani::any();
    let version: Option<u8> = kani::any();
    let other_key: Option<u32> = kani::any();
    if has_file {
        c.custom_checks = Some(mk_custom_checks(other_key, None, false, None, version));
    }
    let cfg: &'static MockConfig = Box::leak(Box::new(c));
    let v = RdhCruSanityValidator::<RdhCru>::new_from_config(cfg);
    let its = tgt != 0;
    assert!(v.rdh0_validator.system_id == if its { Some(0x20) } else { None }, "[C10][C01][C02] the ITS system id is required exactly when an ITS target is selected");
    let expect_version = if has_file { version } else { None };
    assert!(v.rdh0_validator.header_id == expect_version, "[C10][C20] a configured RDH version fixes the expected header id; otherwise the first header seen does");
    assert!(v.rdh0_validator.header_size == 0x40 && v.rdh0_validator.priority_bit == 0 && v.rdh0_validator.reserved0 == 0, "[C10] the documented constants are expected in every configuration");
    assert!(v.rdh0_validator.fee_id.layer_min_max == (0, 6) && v.rdh0_validator.fee_id.stave_number_min_max == (0, 47), "[C10] layer 0..=6 and stave 0..=47 in every configuration");
}
