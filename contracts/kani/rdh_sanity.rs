// Contracts for fastpasta/src/analyze/validators/rdh.rs
#![allow(dead_code, unused_results, clippy::all)]
use super::*;
use crate::verif_support::*;

fn rdh_from(b: &[u8; 64]) -> RdhCru {
    RdhCru::from_buf(&b[..]).unwrap()
}

// @harness id=full_rdh_sanity_default props=C10,C01,C02,C04 kind=full tier=quick fns=RdhCruSanityValidator::sanity_check,RdhCruSanityValidator::new,Rdh0Validator::sanity_check,Rdh1Validator::sanity_check,Rdh2Validator::sanity_check,Rdh3Validator::sanity_check,FeeIdSanityValidator::sanity_check,stave_number_from_feeid,layer_from_feeid stubs=core::fmt::write,alloc::fmt::format
// No target: first header fixes the expected header id; second header checked against it.
#[kani::proof]
#[kani::stub(core::fmt::write, stub_fmt_write)]
#[kani::stub(alloc::fmt::format, stub_format_nonempty)]
fn full_rdh_sanity_default() {
    let mut v = RdhCruSanityValidator::<RdhCru>::new();
    let b: [u8; 64] = kani::any();
    let r = v.sanity_check(&rdh_from(&b));
    let sane = spec_rdh_sane(&b, b[0], false);
    assert!(!(r.is_err() && sane), "[C10][C01] first RDH satisfying every documented sanity condition passes");
    assert!(!(r.is_ok() && !sane), "[C10][C02] first RDH violating a documented sanity condition fails");
    assert!(v.rdh0_validator.header_id == Some(b[0]), "[C10] first header id seen is remembered");
    kani::cover!(r.is_ok());
    kani::cover!(r.is_err());
}

// @harness id=full_rdh_sanity_second props=C10,C01,C02,C04 kind=full tier=quick fns=RdhCruSanityValidator::sanity_check,Rdh0Validator::sanity_check stubs=core::fmt::write,alloc::fmt::format
// Any validator state (first header id already seen, any value; ITS specialisation on/off).
#[kani::proof]
#[kani::stub(core::fmt::write, stub_fmt_write)]
#[kani::stub(alloc::fmt::format, stub_format_nonempty)]
fn full_rdh_sanity_second() {
    let its: bool = kani::any();
    let mut v = if its {
        RdhCruSanityValidator::<RdhCru>::with_specialization(SpecializeChecks::ITS)
    } else {
        RdhCruSanityValidator::<RdhCru>::new()
    };
    let first: u8 = kani::any();
    v.rdh0_validator.header_id = Some(first);
    let b: [u8; 64] = kani::any();
    let r = v.sanity_check(&rdh_from(&b));
    let sane = spec_rdh_sane(&b, first, its);
    assert!(!(r.is_err() && sane), "[C10][C01] RDH satisfying every documented sanity condition passes");
    assert!(!(r.is_ok() && !sane), "[C10][C02] RDH violating a documented sanity condition fails");
    assert!(v.rdh0_validator.header_id == Some(first), "[C10] expected header id is not changed by later headers");
    kani::cover!(r.is_ok() && its);
    kani::cover!(r.is_err() && !its);
}

// @harness id=neg_rdh_sanity props=C10 kind=neg tier=quick expect=fail fns=RdhCruSanityValidator::sanity_check
#[kani::proof]
#[kani::stub(core::fmt::write, stub_fmt_write)]
#[kani::stub(alloc::fmt::format, stub_format_nonempty)]
fn neg_rdh_sanity() {
    let mut v = RdhCruSanityValidator::<RdhCru>::new();
    let b: [u8; 64] = kani::any();
    let r = v.sanity_check(&rdh_from(&b));
    // deliberately false: claims the CRU reserved bytes 40..48 are checked
    assert!(!(r.is_ok() && b[40] != 0), "[NEG] deliberately false");
}
