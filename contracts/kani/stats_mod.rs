// Contracts for fastpasta/src/stats.rs (system id table, system specific statistics)
#![allow(dead_code, unused_results, clippy::all)]
use super::*;
use crate::verif_support::*;

// @harness id=full_collect_system_stats props=C14,C04 kind=full tier=quick fns=collect_system_specific_stats,collect_its_stats,SystemId::from_system_id stubs=flume::Sender::send,alloc::fmt::format
// The system id is fixed by the first RDH; for ITS data every analysed RDH yields its layer/stave pair
// (FEE id bits 14:12 and 5:0); for other systems nothing is sent; an unknown system id is an error.
#[kani::proof]
#[kani::stub(flume::Sender::send, stub_send)]
#[kani::stub(alloc::fmt::format, stub_format_nonempty)]
#[kani::unwind(4)]
fn full_collect_system_stats() {
    let b: [u8; 64] = kani::any();
    let rdh = RdhCru::from_buf(&b[..]).unwrap();
    let known: bool = kani::any();
    let its_known: bool = kani::any();
    let mut sid: Option<SystemId> = if known { Some(if its_known { SystemId::ITS } else { SystemId::TPC }) } else { None };
    let s = fake_sender();
    let r = collect_system_specific_stats(&rdh, &mut sid, &s);
    let sys = b[5];
    if !known {
        if sys == 32 {
            assert!(r.is_ok() && sid == Some(SystemId::ITS), "[C14] system id 0x20 is ITS");
        }
    } else {
        assert!(r.is_ok() && sid == Some(if its_known { SystemId::ITS } else { SystemId::TPC }), "[C14] the system id is fixed by the first RDH");
    }
    let is_its = (known && its_known) || (!known && sys == 32);
    let fee = u16::from_le_bytes([b[2], b[3]]);
    if r.is_ok() && is_its {
        assert!(unsafe { REC.layer_stave } == 1 && sent_total() == 1, "[C14] one layer/stave record per analysed ITS RDH");
        assert!(unsafe { REC.last_layer_stave } == (((fee >> 12) & 0b111) as u8, (fee & 0x3F) as u8), "[C14] layer is FEE id bits 14:12, stave is bits 5:0");
    } else if r.is_ok() && (known || sys != 32) {
        assert!(sent_total() == 0, "[C14] no ITS statistics for other systems");
    }
    core::mem::forget(s);
}
