// Contracts for alice_protocol_reader/src/input_scanner.rs
#![allow(dead_code, unused_results, clippy::all)]
use super::*;
use crate::rdh::{ByteSlice, RDH_CRU};
use crate::verif_apr_support::*;

fn stub_invalid_rdh_offset<T: RDH>(_rdh: &T, _addr: u64, _off: i64) -> String {
    String::new()
}

// @harness id=full_filter_pred props=C03,C08,C14,C04 kind=full tier=quick fns=is_rdh_filter_target,is_match_feeid_layer_stave
#[kani::proof]
fn full_filter_pred() {
    let b: [u8; 64] = kani::any();
    let r = RdhCru::from_buf(&b[..]).unwrap();
    let link: u8 = kani::any();
    let fee: u16 = kani::any();
    assert!(is_rdh_filter_target(&r, FilterTarget::Link(link)) == (s_link_id(&b) == link), "[C03][C08] link filter matches exactly the headers with that link id");
    assert!(is_rdh_filter_target(&r, FilterTarget::Fee(fee)) == (s_fee_id(&b) == fee), "[C03][C08] FEE filter matches exactly the headers with that FEE id");
    let f = s_fee_id(&b);
    let same_layer_stave = ((f >> 12) & 0b111) == ((fee >> 12) & 0b111) && (f & 0x3F) == (fee & 0x3F);
    assert!(is_rdh_filter_target(&r, FilterTarget::ItsLayerStave(fee)) == same_layer_stave, "[C03][C08] stave filter matches exactly the headers with the same layer and stave number");
    // equivalence relation => the filter values partition the input
    let c: u16 = kani::any();
    assert!(is_match_feeid_layer_stave(f, f), "[C08] layer/stave match is reflexive");
    assert!(is_match_feeid_layer_stave(f, fee) == is_match_feeid_layer_stave(fee, f), "[C08] layer/stave match is symmetric");
    if is_match_feeid_layer_stave(f, fee) && is_match_feeid_layer_stave(fee, c) {
        assert!(is_match_feeid_layer_stave(f, c), "[C08] layer/stave match is transitive");
    }
}

// @harness id=full_offset_check props=C03,C04,C16 kind=full tier=quick fns=sanity_check_offset_next stubs=invalid_rdh_offset,flume::Sender::send
#[kani::proof]
#[kani::stub(invalid_rdh_offset, stub_invalid_rdh_offset)]
#[kani::stub(flume::Sender::send, stub_send)]
#[kani::unwind(2)]
fn full_offset_check() {
    let b: [u8; 64] = kani::any();
    let r = RdhCru::from_buf(&b[..]).unwrap();
    let addr: u64 = kani::any();
    let with_ch: bool = kani::any();
    let s = fake_sender();
    let res = sanity_check_offset_next(&r, addr, if with_ch { Some(&s) } else { None });
    let off = s_offset_to_next(&b);
    let in_range = off >= 64 && off <= 10064;
    assert!(res.is_ok() == in_range, "[C03] offset_to_next is accepted exactly in 64..=10064");
    if let Err(e) = &res {
        assert!(e.kind() == std::io::ErrorKind::InvalidData, "[C03][C16] bad offset_to_next is a fatal InvalidData error");
        assert!(unsafe { IREC.fatal } == if with_ch { 1 } else { 0 } && unsafe { IREC.total } == unsafe { IREC.fatal }, "[C03][C16] exactly one fatal message is sent");
    } else {
        assert!(unsafe { IREC.total } == 0, "[C03][C01] nothing is sent for an accepted offset");
    }
    core::mem::forget(s);
}

// @harness id=full_filter_target_cfg props=C03,C08 kind=full tier=quick fns=FilterOpt::filter_target,FilterOpt::filter_enabled
#[kani::proof]
fn full_filter_target_cfg() {
    struct Cfg(Option<u8>, Option<u16>, Option<u16>);
    impl FilterOpt for Cfg {
        fn skip_payload(&self) -> bool { false }
        fn filter_link(&self) -> Option<u8> { self.0 }
        fn filter_fee(&self) -> Option<u16> { self.1 }
        fn filter_its_stave(&self) -> Option<u16> { self.2 }
    }
    let c = Cfg(kani::any(), kani::any(), kani::any());
    match c.filter_target() {
        None => assert!(c.0.is_none() && c.1.is_none() && c.2.is_none(), "[C03] no filter target only when no filter option is given"),
        Some(FilterTarget::Link(l)) => assert!(c.0 == Some(l), "[C03][C08] link filter option selects the link target"),
        Some(FilterTarget::Fee(f)) => assert!(c.0.is_none() && c.1 == Some(f), "[C03][C08] FEE filter option selects the FEE target"),
        Some(FilterTarget::ItsLayerStave(f)) => assert!(c.0.is_none() && c.1.is_none() && c.2 == Some(f), "[C03][C08] stave filter option selects the layer/stave target"),
    }
    assert!(c.filter_enabled() == (c.0.is_some() || c.1.is_some() || c.2.is_some()), "[C08] filter_enabled iff any filter option is given");
}

// ------------------------------------------------------------------ scanner steps over an in-memory reader
const NBUF: usize = 128;

fn scanner_over(data: [u8; NBUF], len: usize, base: u64, filter: Option<FilterTarget>, skip: bool,
                with_stats: bool) -> InputScanner<MemReader<NBUF>> {
    let mut tracker = MemPosTracker::new();
    tracker.update_mem_address(base);
    InputScanner {
        reader: Box::new(MemReader::new(data, len)),
        tracker,
        stats_sender_ch: if with_stats { Some(fake_sender()) } else { None },
        filter_target: filter,
        skip_payload: skip,
        stats: if with_stats { Some(Stats::new(fake_sender())) } else { None },
        initial_rdh0: None,
    }
}

fn set_frame(data: &mut [u8; NBUF], at: usize, payload: u16) {
    let sz = (64 + payload).to_le_bytes();
    data[at + 8] = sz[0];
    data[at + 9] = sz[1];
    data[at + 10] = sz[0];
    data[at + 11] = sz[1];
}

/// One `load_cdp` step on a well-framed packet with `PAYLOAD` payload bytes, no filter.
fn load_cdp_step(payload: u16, skip: bool) {
    let mut data: [u8; NBUF] = kani::any();
    set_frame(&mut data, 0, payload);
    let base: u64 = kani::any();
    kani::assume(base != 0 && base < (1u64 << 62)); // not the first packet: no initial statistics
    let total = 64 + payload as usize;
    let mut sc = scanner_over(data, NBUF, base, None, skip, false);
    let r = sc.load_cdp::<RdhCru>();
    assert!(r.is_ok(), "[C03] a complete well-framed packet is loaded");
    let (rdh, pl, off) = r.unwrap();
    assert!(off == base, "[C03][C07] the packet is associated with its true starting offset");
    let i: usize = kani::any();
    kani::assume(i < 64);
    assert!(rdh.to_byte_slice()[i] == data[i], "[C03] the header is decoded from the 64 bytes at that offset");
    if skip {
        assert!(pl.is_empty(), "[C03] a skipped payload is not loaded");
    } else {
        assert!(pl.len() == payload as usize, "[C03] payload length is memory_size - 64");
        let j: usize = kani::any();
        kani::assume(j < payload as usize);
        assert!(pl[j] == data[64 + j], "[C03] the payload is exactly the bytes that follow the header");
        assert!(sc.reader.max_read_end <= total, "[C18] a scanner step reads only [pos, pos+64+size)");
    }
    assert!(sc.reader.pos == total, "[C03] the reader is left at the next header");
    assert!(sc.current_mem_pos() == base + total as u64, "[C03][C07] the tracked offset is that of the next header");
    core::mem::forget(sc);
    core::mem::forget(pl);
}

// @harness id=bnd_load_cdp_p0 props=C03,C07,C18,C04 kind=bnd tier=manual bound=payload=0B fns=InputScanner::load_cdp,InputScanner::load_rdh_cru,InputScanner::load_payload_raw,InputScanner::current_mem_pos stubs=invalid_rdh_offset,flume::Sender::send,alloc::fmt::format
#[kani::proof]
#[kani::stub(invalid_rdh_offset, stub_invalid_rdh_offset)]
#[kani::stub(flume::Sender::send, stub_send)]
#[kani::stub(alloc::fmt::format, stub_format)]
#[kani::unwind(4)]
fn bnd_load_cdp_p0() {
    load_cdp_step(0, false);
}
// @harness id=bnd_load_cdp_p16 props=C03,C07,C18,C04 kind=bnd tier=manual bound=payload=16B fns=InputScanner::load_cdp,InputScanner::load_rdh_cru,InputScanner::load_payload_raw stubs=invalid_rdh_offset,flume::Sender::send,alloc::fmt::format
#[kani::proof]
#[kani::stub(invalid_rdh_offset, stub_invalid_rdh_offset)]
#[kani::stub(flume::Sender::send, stub_send)]
#[kani::stub(alloc::fmt::format, stub_format)]
#[kani::unwind(4)]
fn bnd_load_cdp_p16() {
    load_cdp_step(16, false);
}
// @harness id=bnd_load_cdp_skip_p32 props=C03,C07,C04 kind=bnd tier=thorough bound=payload=32B fns=InputScanner::load_cdp,InputScanner::seek_to_next_rdh stubs=invalid_rdh_offset,flume::Sender::send,alloc::fmt::format
#[kani::proof]
#[kani::stub(invalid_rdh_offset, stub_invalid_rdh_offset)]
#[kani::stub(flume::Sender::send, stub_send)]
#[kani::stub(alloc::fmt::format, stub_format)]
#[kani::unwind(4)]
fn bnd_load_cdp_skip_p32() {
    load_cdp_step(32, true);
}

// @harness id=bnd_load_payload_raw props=C03,C18,C04 kind=bnd tier=quick bound=payload<=24B,input=32B fns=InputScanner::load_payload_raw
// The unsafe payload read: Ok(v) holds exactly the next `n` bytes of the input (and the reader has advanced by n,
// having read nothing beyond them); when fewer than n bytes are left the result is UnexpectedEof, never a
// partially initialised vector.
#[kani::proof]
#[kani::unwind(6)]
fn bnd_load_payload_raw() {
    let data: [u8; NBUF] = kani::any();
    let len: usize = kani::any();
    kani::assume(len <= 32);
    let mut sc = scanner_over(data, len, 0, None, false, false);
    let start: usize = kani::any();
    kani::assume(start <= len);
    sc.reader.pos = start;
    let n: usize = kani::any();
    kani::assume(n <= 24);
    let r = sc.load_payload_raw(n);
    match r {
        Ok(v) => {
            assert!(start + n <= len, "[C18] a payload is only returned when all of its bytes were there");
            assert!(v.len() == n, "[C03] the payload has the requested length");
            let j: usize = kani::any();
            kani::assume(j < n);
            assert!(v[j] == data[start + j], "[C03][C08] the payload is exactly the bytes at the reader position");
            assert!(sc.reader.pos == start + n && sc.reader.max_read_end <= start + n, "[C03][C18] the reader advanced by exactly n bytes and read nothing beyond them");
            core::mem::forget(v);
        }
        Err(e) => {
            assert!(start + n > len, "[C03][C01] a payload that is completely there is loaded");
            assert!(e.kind() == std::io::ErrorKind::UnexpectedEof, "[C18] a short payload is an UnexpectedEof (reported by load_cdp as E100)");
            core::mem::forget(e);
        }
    }
    core::mem::forget(sc);
}

// @harness id=bnd_collect_rdh_seen props=C14,C04 kind=bnd tier=quick bound=2headers fns=InputScanner::collect_rdh_seen_stats,Stats::rdh_seen,Stats::try_add_link,Stats::try_add_fee_id stubs=flume::Sender::send
// Per visited header: the RDH count grows by one, its link is reported iff not seen before, its FEE id is
// reported iff not seen before - independently of each other (two headers with arbitrary link / FEE id).
#[kani::proof]
#[kani::stub(flume::Sender::send, stub_send)]
#[kani::stub(alloc::fmt::format, stub_format)]
#[kani::unwind(4)]
fn bnd_collect_rdh_seen() {
    let mut a = [0u8; 64];
    let mut b = [0u8; 64];
    a[12] = kani::any();
    b[12] = kani::any();
    a[2] = kani::any();
    a[3] = kani::any();
    b[2] = kani::any();
    b[3] = kani::any();
    let ra = RdhCru::from_buf(&a[..]).unwrap();
    let rb = RdhCru::from_buf(&b[..]).unwrap();
    let mut sc = scanner_over([0u8; NBUF], NBUF, 64, None, false, true);
    sc.collect_rdh_seen_stats(&ra);
    assert!(unsafe { IREC.links } == 1 && unsafe { IREC.last_link } == a[12], "[C14] the first header's link is reported");
    assert!(unsafe { IREC.fees } == 1 && unsafe { IREC.last_fee } == s_fee_id(&a), "[C14] the first header's FEE id is reported");
    sc.collect_rdh_seen_stats(&rb);
    sc.stats.as_mut().unwrap().flush_stats();
    assert!(unsafe { IREC.rdh_seen } == 2, "[C14] every visited header is counted once");
    assert!(unsafe { IREC.links } == 1 + (b[12] != a[12]) as u32, "[C14] a link is reported exactly when it was not seen before, whatever the FEE id");
    assert!(unsafe { IREC.fees } == 1 + (s_fee_id(&b) != s_fee_id(&a)) as u32, "[C14] a FEE id is reported exactly when it was not seen before, whatever the link");
    core::mem::forget(sc);
}
