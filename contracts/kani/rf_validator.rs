// Contracts for fastpasta/src/analyze/validators/its/cdp_running/readout_frame.rs
#![allow(dead_code, unused_results, clippy::all)]
use super::*;
use crate::verif_support::*;

// @harness id=full_store_lane_data_nopanic props=C04,C13 kind=full tier=quick fns=ItsReadoutFrameValidator::store_lane_data,ItsReadoutFrameValidator::new,ItsReadoutFrameValidator::set_stave,ItsReadoutFrameValidator::new_frame,ItsReadoutFrameValidator::is_in_frame,ItsReadoutFrameValidator::try_close_frame
// A data word may arrive when no readout frame is open (e.g. IHW, TDH with continuation=1, data word in
// corrupted data): storing its lane data must not crash. Frame open/close bookkeeping.
#[kani::proof]
#[kani::unwind(12)]
fn full_store_lane_data_nopanic() {
    let cfg: &'static MockConfig = Box::leak(Box::new(MockConfig::new()));
    let mut v = ItsReadoutFrameValidator::new(cfg);
    let fee: u16 = kani::any();
    v.set_stave(Stave::from_feeid(fee));
    assert!(!v.is_in_frame(), "[C13] no readout frame is open initially");
    let open: bool = kani::any();
    let pos: u64 = kani::any();
    if open {
        v.new_frame(pos);
        assert!(v.is_in_frame(), "[C13] a frame is open after a TDH without continuation");
    }
    let w: [u8; 10] = kani::any();
    v.store_lane_data(&w[..]);
    let r = v.try_close_frame(pos);
    assert!(r.is_ok() == open, "[C13][C02] closing reports whether a frame start was ever seen (E59 otherwise)");
    assert!(!v.is_in_frame(), "[C13] after the closing TDT no frame is open");
}
