// Contracts for fastpasta/src/analyze/validators/its/cdp_running/readout_frame.rs
#![allow(dead_code, unused_results, clippy::all)]
use super::*;
use crate::verif_support::*;

// store_lane_data / frame bookkeeping of ItsReadoutFrameValidator exceed CBMC's memory here (nested Vec<LaneDataFrame>
// with Vec<u8> payloads); they are verified modularly in the Verus unit v_frame.
