// Contracts for fastpasta/src/analyze/validators/its/cdp_running/readout_frame.rs
#![allow(dead_code, unused_results, clippy::all)]
use super::*;
use crate::verif_support::*;

// store_lane_data / frame bookkeeping of ItsReadoutFrameValidator exceed CBMC's memory here (nested Vec<LaneDataFrame>
// with Vec<u8> payloads); they are verified modularly in the Verus unit v_frame.

/// harness access for the parent module's handler harnesses
pub(crate) fn frame_start_of<C: CustomChecksOpt>(v: &ItsReadoutFrameValidator<C>) -> Option<u64> {
    v.alpide_readout_frame.as_ref().map(|f| f.start_mem_pos())
}
