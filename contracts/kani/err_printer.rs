// Contracts for fastpasta/src/stats/err_printer.rs (display filtering by error code)
#![allow(dead_code, unused_results, clippy::all)]
use super::*;

// @harness id=bnd_error_code_filter props=C16,C04 kind=bnd tier=quick bound=code<=4digits,filter<=4digits fns=match_error_code,ErrPrinter::filter_error_msgs,ErrPrinter::new
// A message "<offset>: [E<code>] ..." is shown under the filter exactly when <code> equals the listed code
// (not when one is a prefix of the other). Codes and filter codes of 1..=4 digits.
#[kani::proof]
#[kani::unwind(24)]
fn bnd_error_code_filter() {
    let cd: [u8; 4] = kani::any();
    let fd: [u8; 4] = kani::any();
    let (cn, fnn): (usize, usize) = (kani::any(), kani::any());
    kani::assume(cn >= 1 && cn <= 4 && fnn >= 1 && fnn <= 4);
    let mut i = 0;
    while i < 4 {
        kani::assume(cd[i] >= b'0' && cd[i] <= b'9' && fd[i] >= b'0' && fd[i] <= b'9');
        i += 1;
    }
    // message: "0x40: [E" + code + "] x"
    let mut m = [0u8; 16];
    let head = b"0x40: [E";
    m[..8].copy_from_slice(head);
    let mut k = 0;
    while k < cn {
        m[8 + k] = cd[k];
        k += 1;
    }
    m[8 + cn] = b']';
    m[9 + cn] = b' ';
    m[10 + cn] = b'x';
    let msg: Box<str> = core::str::from_utf8(&m[..11 + cn]).unwrap().into();
    let filter = vec![String::from(core::str::from_utf8(&fd[..fnn]).unwrap())];
    let msgs = [msg];
    let p = ErrPrinter::new(None, None);
    let shown = p.filter_error_msgs(None, &filter[..], msgs.iter()).count();
    let mut same = cn == fnn;
    let mut j = 0;
    while j < 4 {
        if j < cn && j < fnn && cd[j] != fd[j] {
            same = false;
        }
        j += 1;
    }
    assert!((shown == 1) == same, "[C16] with an error-code filter exactly the messages carrying a listed code are shown (prefixes do not match)");
    kani::cover!(shown == 1);
    kani::cover!(shown == 0 && cn != fnn);
}
