// Contracts for fastpasta/src/stats/err_printer.rs (display filtering by error code)
#![allow(dead_code, unused_results, clippy::all)]
use super::*;

// @harness id=bnd_error_code_filter props=C16,C04 kind=bnd tier=thorough bound=code<=3digits,filter<=3digits fns=match_error_code,ErrPrinter::filter_error_msgs,ErrPrinter::new
// A message "0:[E<code>]" is shown under the filter exactly when <code> equals the listed code
// (not when one is a prefix of the other). Codes and filter codes of 1..=4 digits.
#[kani::proof]
#[kani::unwind(12)]
fn bnd_error_code_filter() {
    let cd: [u8; 3] = kani::any();
    let fd: [u8; 3] = kani::any();
    let (cn, fnn): (usize, usize) = (kani::any(), kani::any());
    kani::assume(cn >= 1 && cn <= 3 && fnn >= 1 && fnn <= 3);
    let mut i = 0;
    while i < 3 {
        kani::assume(cd[i] >= b'0' && cd[i] <= b'9' && fd[i] >= b'0' && fd[i] <= b'9');
        i += 1;
    }
    // message: "0:[E" + code + "]"
    let mut m = [0u8; 8];
    m[0] = b'0';
    m[1] = b':';
    m[2] = b'[';
    m[3] = b'E';
    let mut k = 0;
    while k < cn {
        m[4 + k] = cd[k];
        k += 1;
    }
    m[4 + cn] = b']';
    let msg: Box<str> = unsafe { core::str::from_utf8_unchecked(&m[..5 + cn]) }.into();
    let filter = vec![String::from(unsafe { core::str::from_utf8_unchecked(&fd[..fnn]) })];
    let msgs = [msg];
    let p = ErrPrinter::new(None, None);
    let shown = p.filter_error_msgs(None, &filter[..], msgs.iter()).count();
    let mut same = cn == fnn;
    let mut j = 0;
    while j < 3 {
        if j < cn && j < fnn && cd[j] != fd[j] {
            same = false;
        }
        j += 1;
    }
    assert!((shown == 1) == same, "[C16] with an error-code filter exactly the messages carrying a listed code are shown (prefixes do not match)");
    kani::cover!(shown == 1);
    kani::cover!(shown == 0 && cn != fnn);
}
