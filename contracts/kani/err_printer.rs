// Contracts for fastpasta/src/stats/err_printer.rs (display filtering by error code)
#![allow(dead_code, unused_results, clippy::all)]
use super::*;

/// message "[E<code>]" with CN code digits against a filter code of FN digits (digits symbolic)
fn filter_case<const CN: usize, const FN: usize>() {
    let cd: [u8; CN] = kani::any();
    let fd: [u8; FN] = kani::any();
    let mut i = 0;
    while i < CN {
        kani::assume(cd[i] >= b'0' && cd[i] <= b'9');
        i += 1;
    }
    i = 0;
    while i < FN {
        kani::assume(fd[i] >= b'0' && fd[i] <= b'9');
        i += 1;
    }
    let mut m = [0u8; 8];
    m[0] = b'[';
    m[1] = b'E';
    i = 0;
    while i < CN {
        m[2 + i] = cd[i];
        i += 1;
    }
    m[2 + CN] = b']';
    let msg: &str = unsafe { core::str::from_utf8_unchecked(&m[..3 + CN]) };
    let filt: &str = unsafe { core::str::from_utf8_unchecked(&fd[..]) };
    // as the caller does: advance the message iterator just past '['
    let mut msg_chars = msg.chars();
    let pos = msg_chars.position(|c| c == '[').unwrap();
    let r = match_error_code(msg, filt.chars(), msg_chars, pos);
    let mut same = CN == FN;
    i = 0;
    while i < CN && i < FN {
        if cd[i] != fd[i] {
            same = false;
        }
        i += 1;
    }
    assert!(r == same, "[C16] with an error-code filter exactly the messages carrying a listed code are shown (a prefix in either direction does not match)");
}

// @harness id=bnd_error_code_filter_1_2 props=C16,C04 kind=bnd tier=quick bound=code=1digit,filter=2digits fns=match_error_code
#[kani::proof]
#[kani::unwind(10)]
fn bnd_error_code_filter_1_2() {
    filter_case::<1, 2>();
}
// @harness id=bnd_error_code_filter_2_1 props=C16,C04 kind=bnd tier=quick bound=code=2digits,filter=1digit fns=match_error_code
#[kani::proof]
#[kani::unwind(10)]
fn bnd_error_code_filter_2_1() {
    filter_case::<2, 1>();
}
// @harness id=bnd_error_code_filter_2_2 props=C16,C04 kind=bnd tier=quick bound=code=2digits,filter=2digits fns=match_error_code
#[kani::proof]
#[kani::unwind(10)]
fn bnd_error_code_filter_2_2() {
    filter_case::<2, 2>();
}
// @harness id=bnd_error_code_filter_2_3 props=C16,C04 kind=bnd tier=quick bound=code=2digits,filter=3digits fns=match_error_code
#[kani::proof]
#[kani::unwind(10)]
fn bnd_error_code_filter_2_3() {
    filter_case::<2, 3>();
}
