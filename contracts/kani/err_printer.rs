// Contracts for fastpasta/src/stats/err_printer.rs (display filtering by error code)
#![allow(dead_code, unused_results, clippy::all)]
use super::*;

/// message "[E<code>]" with CN code digits against a filter code of FN digits (digits symbolic)
fn filter_case<const CN: usize, const FN: usize>() {
    let cd: [u8; CN] = kani::any();
    let fd: [u8; FN] = kani::any();
    let mut i = 0;
    while i < CN {
        kani::assume(cd[i] >= b'0' && cd[i] <= b'9');
        i += 1;
    }
    i = 0;
    while i < FN {
        kani::assume(fd[i] >= b'0' && fd[i] <= b'9');
        i += 1;
    }
    let mut m = [0u8; 8];
    m[0] = b'[';
    m[1] = b'E';
    i = 0;
    while i < CN {
        m[2 + i] = cd[i];
        i += 1;
    }
    m[2 + CN] = b']';
    let msg: &str = unsafe { core::str::from_utf8_unchecked(&m[..3 + CN]) };
    let filt: &str = unsafe { core::str::from_utf8_unchecked(&fd[..]) };
    // as the caller does: advance the message iterator just past '['
    let mut msg_chars = msg.chars();
    let pos = msg_chars.position(|c| c == '[').unwrap();
    let r = match_error_code(msg, filt.chars(), msg_chars, pos);
    let mut same = CN == FN;
    i = 0;
    while i < CN && i < FN {
        if cd[i] != fd[i] {
            same = false;
        }
        i += 1;
    }
    assert!(r == same, "[C16] with an error-code filter exactly the messages carrying a listed code are shown (a prefix in either direction does not match)");
}

// @harness id=bnd_error_code_filter_1_2 props=C16,C04 kind=bnd tier=quick bound=code=1digit,filter=2digits fns=match_error_code
#[kani::proof]
#[kani::unwind(10)]
fn bnd_error_code_filter_1_2() {
    filter_case::<1, 2>();
}
// @harness id=bnd_error_code_filter_2_1 props=C16,C04 kind=bnd tier=quick bound=code=2digits,filter=1digit fns=match_error_code
#[kani::proof]
#[kani::unwind(10)]
fn bnd_error_code_filter_2_1() {
    filter_case::<2, 1>();
}
// @harness id=bnd_error_code_filter_2_2 props=C16,C04 kind=bnd tier=quick bound=code=2digits,filter=2digits fns=match_error_code
#[kani::proof]
#[kani::unwind(10)]
fn bnd_error_code_filter_2_2() {
    filter_case::<2, 2>();
}
// @harness id=bnd_error_code_filter_2_3 props=C16,C04 kind=bnd tier=quick bound=code=2digits,filter=3digits fns=match_error_code
#[kani::proof]
#[kani::unwind(10)]
fn bnd_error_code_filter_2_3() {
    filter_case::<2, 3>();
}

// @harness id=bnd_error_code_filter_1_1 props=C16,C04 kind=bnd tier=thorough bound=code=1digits,filter=1digits fns=match_error_code
#[kani::proof]
#[kani::unwind(10)]
fn bnd_error_code_filter_1_1() {
    filter_case::<1, 1>();
}
// @harness id=bnd_error_code_filter_1_3 props=C16,C04 kind=bnd tier=thorough bound=code=1digits,filter=3digits fns=match_error_code
#[kani::proof]
#[kani::unwind(10)]
fn bnd_error_code_filter_1_3() {
    filter_case::<1, 3>();
}
// @harness id=bnd_error_code_filter_3_1 props=C16,C04 kind=bnd tier=thorough bound=code=3digits,filter=1digits fns=match_error_code
#[kani::proof]
#[kani::unwind(10)]
fn bnd_error_code_filter_3_1() {
    filter_case::<3, 1>();
}
// @harness id=bnd_error_code_filter_3_2 props=C16,C04 kind=bnd tier=thorough bound=code=3digits,filter=2digits fns=match_error_code
#[kani::proof]
#[kani::unwind(10)]
fn bnd_error_code_filter_3_2() {
    filter_case::<3, 2>();
}
// @harness id=bnd_error_code_filter_3_3 props=C16,C04 kind=bnd tier=thorough bound=code=3digits,filter=3digits fns=match_error_code
#[kani::proof]
#[kani::unwind(10)]
fn bnd_error_code_filter_3_3() {
    filter_case::<3, 3>();
}

struct ShowRec {
    marker: u64,
    shown: u32,
}
// one static with a unique marker (see support.rs)
static mut SHOWN: ShowRec = ShowRec { marker: 0x5EED_0000_0000_0008, shown: 0 };
fn stub_display_error(_e: &str) {
    unsafe { SHOWN.shown += 1 };
}

// @harness id=bnd_error_cap props=C16,C04 kind=bnd tier=quick bound=messages<=4 fns=ErrPrinter::new,ErrPrinter::print stubs=display_error
// Without a code filter, an error cap N shows min(N, number of messages) messages; no cap shows all of them.
#[kani::proof]
#[kani::stub(crate::display_error, stub_display_error)]
#[kani::unwind(7)]
fn bnd_error_cap() {
    let msgs: [Box<str>; 4] = ["".into(), "".into(), "".into(), "".into()];
    let n: usize = kani::any();
    kani::assume(n <= 4);
    let cap: Option<u32> = if kani::any() { Some(kani::any()) } else { None };
    unsafe { SHOWN.shown = 0 };
    let p = ErrPrinter::new(cap, None);
    p.print(msgs[..n].iter(), &[]);
    let shown = unsafe { SHOWN.shown } as u64;
    match cap {
        Some(c) => assert!(shown == core::cmp::min(c as u64, n as u64), "[C16] an error cap N shows at most N messages (and all of them when there are fewer)"),
        None => assert!(shown == n as u64, "[C16] without a cap every message is shown"),
    }
    kani::cover!(cap == Some(2) && n == 4);
}
