// Contracts for fastpasta/src/stats/stats_collector/trigger_stats.rs
#![allow(dead_code, unused_results, clippy::all)]
use super::*;

fn counters(t: &TriggerStats) -> [u32; 20] {
    [t.orbit(), t.hb(), t.hbr(), t.hc(), t.pht(), t.pp(), t.cal(), t.sot(), t.eot(), t.soc(), t.eoc(), t.tf(),
     t.fe_rst(), t.rt(), t.rs(), t.lhc_gap1(), t.lhc_gap2(), t.tpc_sync(), t.tpc_rst(), t.tof()]
}
/// trigger-type bit of each counter (CTP trigger message: bits 0..14 and 27..31; 15..26 spare)
const BIT: [u32; 20] = [0, 1, 2, 3, 4, 5, 6, 7, 8, 9, 10, 11, 12, 13, 14, 27, 28, 29, 30, 31];

// @harness id=full_trigger_stats_collect props=C14,C05,C04 kind=full tier=quick fns=TriggerStats::collect_stats
// Each trigger-type bit increments exactly its own counter; collection commutes.
#[kani::proof]
#[kani::unwind(21)]
fn full_trigger_stats_collect() {
    let init: [u32; 20] = kani::any();
    let mut t = TriggerStats::default();
    let mut i = 0;
    while i < 20 {
        kani::assume(init[i] < (1 << 30));
        i += 1;
    }
    t.orbit = init[0]; t.hb = init[1]; t.hbr = init[2]; t.hc = init[3]; t.pht = init[4]; t.pp = init[5];
    t.cal = init[6]; t.sot = init[7]; t.eot = init[8]; t.soc = init[9]; t.eoc = init[10]; t.tf = init[11];
    t.fe_rst = init[12]; t.rt = init[13]; t.rs = init[14]; t.lhc_gap1 = init[15]; t.lhc_gap2 = init[16];
    t.tpc_sync = init[17]; t.tpc_rst = init[18]; t.tof = init[19];
    let x: u32 = kani::any();
    let y: u32 = kani::any();
    let mut t2 = t;
    t.collect_stats(x);
    let c = counters(&t);
    let k: usize = kani::any();
    kani::assume(k < 20);
    assert!(c[k] == init[k] + ((x >> BIT[k]) & 1), "[C14] each trigger-type bit increments exactly its own counter");
    // commutativity (order-insensitive accumulation)
    t.collect_stats(y);
    t2.collect_stats(y);
    t2.collect_stats(x);
    assert!(t == t2, "[C05] trigger statistics accumulate commutatively");
}
