// Contracts for fastpasta/src/stats/stats_validation.rs and the custom-check gates
#![allow(dead_code, unused_results, clippy::all)]
use super::*;
use crate::config::custom_checks::custom_checks_cfg::verif_custom_cfg::mk_custom_checks;
use crate::verif_support::*;

// @harness id=full_validate_custom_stats props=C20,C04 kind=full tier=quick fns=validate_custom_stats,StatsCollector::validate_custom_stats,MockConfig::custom_checks_enabled,MockConfig::cdps,MockConfig::triggers_pht stubs=alloc::fmt::format
// [E9001] iff a packet count is configured and differs from the RDHs seen; [E9002] iff a PhT count is
// configured and differs from the observed PhT triggers; an all-default file enables nothing.
#[kani::proof]
#[kani::stub(alloc::fmt::format, stub_format)]
#[kani::unwind(5)]
fn full_validate_custom_stats() {
    let (cdps, pht): (Option<u32>, Option<u32>) = (kani::any(), kani::any());
    let has_file: bool = kani::any();
    let other_key: bool = kani::any();
    let mut cfg = MockConfig::new();
    if has_file {
        cfg.custom_checks = Some(mk_custom_checks(cdps, pht, false, if other_key { Some(7) } else { None }, None));
    }
    let cfg: &'static MockConfig = Box::leak(Box::new(cfg));
    let any_key = has_file && (cdps.is_some() || pht.is_some() || other_key);
    assert!(cfg.custom_checks_enabled() == any_key, "[C20] custom checks are enabled iff the file sets at least one key");
    let mut c = StatsCollector::default();
    let seen: u32 = kani::any();
    c.collect(StatType::RDHSeen(seen));
    let npht: u8 = kani::any();
    kani::assume(npht <= 2);
    let mut i = 0;
    while i < npht {
        c.collect(StatType::TriggerType(0x10));
        i += 1;
    }
    c.collect(StatType::TriggerType(0x0F)); // not a physics trigger
    let r = validate_custom_stats(cfg, c.rdh_stats());
    let e1 = has_file && cdps.is_some() && cdps.unwrap() != seen;
    let e2 = has_file && pht.is_some() && pht.unwrap() != npht as u32;
    match &r {
        Ok(()) => assert!(!e1 && !e2, "[C20] a configured count that differs from the observed one is reported (E9001/E9002)"),
        Err(v) => assert!(v.len() == e1 as usize + e2 as usize && (e1 || e2), "[C20] exactly one error per configured count that differs; none when equal or not configured"),
    }
    // the collector adds them to the error total
    c.validate_custom_stats(cfg);
    assert!(c.err_count() == e1 as u64 + e2 as u64, "[C20][C16] custom-check failures are counted as errors");
}
