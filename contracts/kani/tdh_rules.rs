// Contracts for fastpasta/src/analyze/validators/its/status_word/tdh.rs (state-dependent TDH rules, trigger period)
#![allow(dead_code, unused_results, clippy::all)]
use super::*;
use crate::verif_support::*;
use alice_protocol_reader::prelude::*;

fn tdh_from(b: &[u8; 10]) -> Tdh {
    Tdh::from_buf(&b[..]).unwrap()
}

// check_tdh_no_continuation and check_continuation (Result<(), Vec<String>> with up to four conditional
// pushes) exceed 24 GB in CBMC with both CaDiCaL and MiniSat; they are verified modularly by the Verus unit
// v_tdh_rules against the accessor contracts proved here (full_accessors_tdh) instead.

// @harness id=full_tdh_after_done props=C02,C01,C04 kind=full tier=quick fns=TdhValidator::check_after_tdt_packet_done_true,StatusWordContainer::replace_tdh,TdhBuffer::replace
#[kani::proof]
fn full_tdh_after_done() {
    let w: [u8; 10] = kani::any();
    let p: [u8; 10] = kani::any();
    let has_prev: bool = kani::any();
    let mut sw = StatusWordContainer::new_const();
    if has_prev {
        sw.replace_tdh(tdh_from(&p));
    }
    sw.replace_tdh(tdh_from(&w));
    let r = TdhValidator::check_after_tdt_packet_done_true(&sw);
    let viol = has_prev && bits(w80(&p), 27, 16) > bits(w80(&w), 27, 16);
    assert!(r.is_err() == viol, "[C01][C02] TDH after a completed packet is reported iff its trigger BC is lower than the previous TDH's (E440)");
}

// @harness id=full_trigger_interval props=C20,C04 kind=full tier=quick fns=TdhValidator::check_trigger_interval,TdhValidator::matches_trigger_interval stubs=alloc::fmt::format
// For all BC pairs <= 3563 and all periods: error iff (current - previous) mod 3564 != P.
#[kani::proof]
#[kani::stub(alloc::fmt::format, stub_format)]
#[kani::unwind(4)]
fn full_trigger_interval() {
    let w: [u8; 10] = kani::any();
    let p: [u8; 10] = kani::any();
    let period: u16 = kani::any();
    let c = bits(w80(&w), 27, 16) as u32;
    let q = bits(w80(&p), 27, 16) as u32;
    kani::assume(c <= 3563 && q <= 3563);
    kani::assume(bits(w80(&w), 12, 12) == 1 && bits(w80(&p), 12, 12) == 1);
    let r = TdhValidator::check_trigger_interval(&tdh_from(&w), &tdh_from(&p), period);
    let dist = (c + 3564 - q) % 3564;
    assert!(r.is_err() == (dist != period as u32), "[C20] trigger period error iff the BC distance modulo 3564 differs from the configured period");
}

// @harness id=full_tdh_buffer props=C20,C02,C04 kind=full tier=quick fns=TdhBuffer::replace,TdhBuffer::current_tdh,TdhBuffer::previous_tdh,TdhBuffer::previous_tdh_with_internal_trg
// History buffer: previous = the TDH before; previous-internal = the latest earlier TDH with the internal trigger bit.
#[kani::proof]
fn full_tdh_buffer() {
    let a: [u8; 10] = kani::any();
    let b: [u8; 10] = kani::any();
    let c: [u8; 10] = kani::any();
    let mut sw = StatusWordContainer::new_const();
    assert!(sw.tdh().is_none() && sw.prv_tdh().is_none() && sw.tdh_previous_with_internal_trg().is_none(), "[C20] no TDH history initially");
    sw.replace_tdh(tdh_from(&a));
    assert!(sw.tdh_previous_with_internal_trg().is_none(), "[C20] the first TDH has no previous internal-trigger TDH");
    sw.replace_tdh(tdh_from(&b));
    sw.replace_tdh(tdh_from(&c));
    assert!(*sw.tdh().unwrap() == tdh_from(&c) && *sw.prv_tdh().unwrap() == tdh_from(&b), "[C02][C20] current and previous TDH are the last two seen");
    let ia = bits(w80(&a), 12, 12) == 1;
    let ib = bits(w80(&b), 12, 12) == 1;
    match sw.tdh_previous_with_internal_trg() {
        None => assert!(!ia && !ib, "[C20] an earlier internal-trigger TDH is remembered"),
        Some(t) => {
            if ib {
                assert!(*t == tdh_from(&b), "[C20] the previous internal-trigger TDH is the latest earlier one");
            } else {
                assert!(ia && *t == tdh_from(&a), "[C20] the previous internal-trigger TDH is the latest earlier one");
            }
        }
    }
}

// @harness id=full_trigger_interval_nopanic props=C04 kind=full tier=quick fns=TdhValidator::check_trigger_interval,TdhValidator::matches_trigger_interval stubs=alloc::fmt::format
// No precondition: any two TDHs (BC field is 12 bits, values above 3563 occur in corrupted data).
#[kani::proof]
#[kani::stub(alloc::fmt::format, stub_format)]
#[kani::unwind(4)]
fn full_trigger_interval_nopanic() {
    let w: [u8; 10] = kani::any();
    let p: [u8; 10] = kani::any();
    kani::assume(bits(w80(&w), 12, 12) == 1 && bits(w80(&p), 12, 12) == 1); // call-site guarantee
    let _ = TdhValidator::check_trigger_interval(&tdh_from(&w), &tdh_from(&p), kani::any());
}
