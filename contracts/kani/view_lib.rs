// Contracts for fastpasta/src/analyze/view/lib.rs
#![allow(dead_code, unused_results, clippy::all)]
use super::*;

// @harness id=full_calc_word_mem_pos props=C07,C19,C04 kind=full tier=quick fns=calc_current_word_mem_pos
#[kani::proof]
fn full_calc_word_mem_pos() {
    let idx: u16 = kani::any();
    let df: u8 = kani::any();
    let pos: u64 = kani::any();
    kani::assume(pos < (1u64 << 62));
    let slot: u64 = if df == 0 { 16 } else { 10 };
    assert!(calc_current_word_mem_pos(idx as usize, df, pos) == pos + 64 + idx as u64 * slot, "[C07][C19] view word offset = packet offset + 64 + index x slot size");
}
