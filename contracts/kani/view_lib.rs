// Contracts for fastpasta/src/analyze/view/lib.rs
#![allow(dead_code, unused_results, clippy::all)]
use super::*;

// @harness id=full_calc_word_mem_pos props=C07,C19,C04 kind=full tier=quick fns=calc_current_word_mem_pos
#[kani::proof]
fn full_calc_word_mem_pos() {
    let idx: u16 = kani::any();
    let df: u8 = kani::any();
    let pos: u64 = kani::any();
    kani::assume(pos < (1u64 << 62));
    let slot: u64 = if df == 0 { 16 } else { 10 };
    assert!(calc_current_word_mem_pos(idx as usize, df, pos) == pos + 64 + idx as u64 * slot, "[C07][C19] view word offset = packet offset + 64 + index x slot size");
}

use alice_protocol_reader::prelude::*;

// @harness id=full_view_trigger_strings props=C19,C14,C04 kind=full tier=quick fns=trigger_type_string_from_int,rdh_trigger_type_as_string,rdh_detector_field_lane_status_as_string,det_field_util::lane_fatal,det_field_util::lane_error,det_field_util::lane_warning,det_field_util::lane_missing_data
#[kani::proof]
#[kani::unwind(10)]
fn full_view_trigger_strings() {
    let b: [u8; 64] = kani::any();
    let rdh = RdhCru::from_buf(&b[..]).unwrap();
    let tt = u32::from_le_bytes([b[32], b[33], b[34], b[35]]);
    let e = if tt & (1 << 9) != 0 { "SOC  " } else if tt & (1 << 7) != 0 { "SOT  " } else if tt & (1 << 1) != 0 { "HB   " } else if tt & (1 << 4) != 0 { "PhT  " } else { "Other" };
    assert!(&*trigger_type_string_from_int(tt) == e, "[C19][C14] run/RDH trigger description: SOC, SOT, HB, PhT, else other");
    assert!(&*rdh_trigger_type_as_string(&rdh) == e, "[C19] RDH trigger description uses the RDH trigger type");
    let df = u32::from_le_bytes([b[48], b[49], b[50], b[51]]);
    let l = if df & 0b1000 != 0 { "Fatal  " } else if df & 0b100 != 0 { "Error  " } else if df & 0b10 != 0 { "Warning" } else if df & 0b1 != 0 { "Missing" } else { "-      " };
    assert!(&*rdh_detector_field_lane_status_as_string(&rdh) == l, "[C19] detector-field lane status: fatal bit 3, error bit 2, warning bit 1, missing bit 0");
}
