// Contracts for fastpasta/src/analyze/validators/its/cdp_running/cdp_tracker.rs
#![allow(dead_code, unused_results, clippy::all)]
use super::*;
use alice_protocol_reader::prelude::*;

// @harness id=full_cdp_tracker props=C07,C02,C04 kind=full tier=quick fns=CdpTracker::new,CdpTracker::current_word_mem_pos,CdpTracker::incr_word_count,CdpTracker::start_of_data,CdpTracker::set_data_seen
// word offset = packet offset + 64 + index x slot size (slot 16 for data format 0, else 10)
#[kani::proof]
fn full_cdp_tracker() {
    let b: [u8; 64] = kani::any();
    let rdh = RdhCru::from_buf(&b[..]).unwrap();
    let pos: u64 = kani::any();
    kani::assume(pos < (1u64 << 62));
    let mut t = CdpTracker::new(&rdh, pos);
    assert!(t.start_of_data(), "[C02] a new packet starts before any data word (CDW allowed)");
    let slot: u64 = if b[24] == 0 { 16 } else { 10 };
    // k-th word (k >= 1) of the packet; at most 6553 ten-byte words fit the largest payload
    let k: u16 = kani::any();
    kani::assume(k >= 1 && k <= 6553);
    t.gbt_word_counter = k - 1;
    t.incr_word_count();
    assert!(t.current_word_mem_pos() == pos + 64 + (k as u64 - 1) * slot, "[C07] word offset = packet offset + 64 + index x slot size");
    t.set_data_seen();
    assert!(!t.start_of_data(), "[C02] after a data word the packet is no longer at start of data");
    assert!(t.current_word_mem_pos() == pos + 64 + (k as u64 - 1) * slot, "[C07] set_data_seen does not move the word offset");
}

/// test-only access for harnesses of the parent module
pub(crate) fn set_word_counter(t: &mut CdpTracker, n: u16) {
    t.gbt_word_counter = n;
}
