// Verus unit: StatsCollector::validate_other_stats (extracted verbatim; the display-only statement
// `errs.iter().for_each(|err| { crate::display_error(err); })` is dropped by the extraction), verified
// modularly: a statistics file is accepted iff every collected section equals the file's section
// (sub-comparisons: units v_validate_fields / v_validate_fields2).
use vstd::prelude::*;
verus! {

#[verifier::external_body]
fn opaque_msg() -> String { String::new() }

#[derive(PartialEq, Eq, Structural, Clone, Copy)]
pub enum IoErrorKind { InvalidInput, UnexpectedEof, InvalidData, Other }
pub struct IoError { pub k: IoErrorKind }
impl IoError {
    pub fn new(k: IoErrorKind, _m: &str) -> (r: IoError) ensures r.k == k { IoError { k } }
}
pub mod io {
    pub use crate::IoErrorKind as ErrorKind;
    pub use crate::IoError as Error;
}

pub struct RdhStats { pub v: u64 }
pub struct ErrorStats { pub v: u64 }
pub struct AlpideStats { pub v: u64 }
impl RdhStats {
    #[verifier::external_body]
    pub fn validate_other(&self, other: &Self) -> (r: Result<(), Vec<String>>) ensures r.is_ok() <==> *self == *other, r matches Err(v) ==> v@.len() > 0 { unimplemented!() }
}
impl ErrorStats {
    pub uninterp spec fn s_err_count(&self) -> u64;
    pub uninterp spec fn s_any_fatal(&self) -> bool;
    #[verifier::external_body]
    pub fn err_count(&self) -> (r: u64) ensures r == self.s_err_count() { unimplemented!() }
    #[verifier::external_body]
    pub fn any_fatal_err(&self) -> (r: bool) ensures r == self.s_any_fatal() { unimplemented!() }
    #[verifier::external_body]
    pub fn validate_other(&self, other: &Self) -> (r: Result<(), Vec<String>>) ensures r.is_ok() <==> *self == *other, r matches Err(v) ==> v@.len() > 0 { unimplemented!() }
}
impl AlpideStats {
    #[verifier::external_body]
    pub fn validate_other(&self, other: &Self) -> (r: Result<(), Vec<String>>) ensures r.is_ok() <==> *self == *other, r matches Err(v) ==> v@.len() > 0 { unimplemented!() }
}

pub struct StatsCollector {
    pub is_finalized: bool,
    pub rdh_stats: RdhStats,
    pub error_stats: ErrorStats,
    pub alpide_stats: Option<AlpideStats>,
}

impl StatsCollector {
//@EXTRACT sc_rdh_stats

//@EXTRACT sc_error_stats

//@EXTRACT sc_alpide_stats

// further accessors of the collector, extracted so that a changed validate_other_stats that uses them is
// still checked against the contract (instead of failing to compile = inconclusive)
//@EXTRACT sc_err_count

//@EXTRACT sc_any_errors

//@EXTRACT sc_any_fatal_err

//@EXTRACT validate_other_stats
}

} // verus!
fn main() {}
