// Verus unit: the content of a word row of the ITS readout-frame views (C19). `generate_its_readout_frame_word_view`
// is extracted verbatim; the extraction rule `row_rule` replaces every format!/format_args!/writeln! by the ordered list
// of what it renders (word-type label found in the literal, captured identifiers, positional arguments). The obligation:
// for every word type the row consists of the position, the label of THAT type, the word's raw bytes and exactly the
// attribute decoders documented for the type, each applied to the word's own bytes - and this content is the same
// whether styling is on or off (the expected content does not mention the styling flag).
use vstd::prelude::*;
verus! {

pub enum Leaf { Pos, Label(int), Bytes(Seq<u8>), Attr(int, Seq<u8>) }
pub enum L { Nil, Cons(Leaf, Box<L>) }
pub open spec fn app(a: L, b: L) -> L decreases a {
    match a { L::Nil => b, L::Cons(h, t) => L::Cons(h, Box::new(app(*t, b))) }
}
/// rendered text, abstracted to the ordered list of what it shows
pub struct Token { pub l: Ghost<L> }
impl Token {
    // owo_colors styling: changes colours only
    pub fn white(self) -> (r: Token) ensures r.l@ == self.l@ { self }
    pub fn bold(self) -> (r: Token) ensures r.l@ == self.l@ { self }
    pub fn bg_rgb<const R: u8, const G: u8, const B: u8>(self) -> (r: Token) ensures r.l@ == self.l@ { self }
}
#[verifier::external_body] pub fn tok_nil() -> (r: Token) ensures r.l@ == L::Nil { unimplemented!() }
#[verifier::external_body] pub fn tok_missing() -> (r: Token) ensures r.l@ == L::Nil { unimplemented!() }
#[verifier::external_body] pub fn tok_label(c: u8) -> (r: Token) ensures r.l@ == L::Cons(Leaf::Label(c as int), Box::new(L::Nil)) { unimplemented!() }
#[verifier::external_body] pub fn tok_cons(p: &Token, rest: Token) -> (r: Token) ensures r.l@ == app(p.l@, rest.l@) { unimplemented!() }

#[allow(non_camel_case_types)]
#[derive(PartialEq, Eq, Structural, Clone, Copy)]
pub enum ItsPayloadWord { IHW, IHW_continuation, TDH, TDH_continuation, TDH_after_packet_done, TDT, CDW, DataWord, DDW0 }
pub struct ErrBox;
pub mod io { pub use crate::ErrBox as Error; }
pub mod hint {
    /// the state-dependent variants never reach the row builder (ItsPayloadWord::from_id: Kani full_word_from_id)
    #[verifier::external_body]
    pub unsafe fn unreachable_unchecked() -> ! requires false { unimplemented!() }
}
pub struct StdoutLock { pub rows: Ghost<Seq<L>> }
#[verifier::external_body]
pub fn emit_row(w: &mut StdoutLock, row: Token) -> (r: Result<(), ErrBox>)
    ensures r.is_ok() ==> final(w).rows@ == old(w).rows@.push(row.l@), r.is_err() ==> final(w).rows@ == old(w).rows@
{ unimplemented!() }

/// hexadecimal dump of the word bytes
#[verifier::external_body]
pub fn format_word_slice(s: &[u8]) -> (r: Token) ensures r.l@ == L::Cons(Leaf::Bytes(s@), Box::new(L::Nil)) { unimplemented!() }
pub open spec fn one(k: int, s: Seq<u8>) -> L { L::Cons(Leaf::Attr(k, s), Box::new(L::Nil)) }
pub mod words { pub mod its { pub mod status_words { pub mod util {
    use vstd::prelude::*;
    use crate::*;
    // attribute decoders (what each returns: Kani full_sw_util_bits / full_sw_util_strings / full_sw_util_lane_status)
    #[verifier::external_body] pub fn tdh_trigger_as_string(s: &[u8]) -> (r: Token) ensures r.l@ == one(1, s@) { unimplemented!() }
    #[verifier::external_body] pub fn tdh_continuation_as_string(s: &[u8]) -> (r: Token) ensures r.l@ == one(2, s@) { unimplemented!() }
    #[verifier::external_body] pub fn tdh_no_data_as_string(s: &[u8]) -> (r: Token) ensures r.l@ == one(3, s@) { unimplemented!() }
    #[verifier::external_body] pub fn tdh_trigger_orbit_bc_as_string(s: &[u8]) -> (r: Token) ensures r.l@ == one(4, s@) { unimplemented!() }
    #[verifier::external_body] pub fn tdt_packet_done_as_string(s: &[u8]) -> (r: Token) ensures r.l@ == one(5, s@) { unimplemented!() }
    #[verifier::external_body] pub fn ddw0_tdt_lane_status_as_string(s: &[u8]) -> (r: Token) ensures r.l@ == one(6, s@) { unimplemented!() }
} } } }

pub open spec fn cons(a: Leaf, t: L) -> L { L::Cons(a, Box::new(t)) }
/// documented content of a row after the position column (property C19): type, raw bytes, decoded attributes of that type
pub open spec fn row_rest(t: ItsPayloadWord, s: Seq<u8>) -> L {
    match t {
        ItsPayloadWord::DataWord => cons(Leaf::Label(0), cons(Leaf::Bytes(s), L::Nil)),
        // trigger kind, continuation, no-data, orbit and bunch crossing
        ItsPayloadWord::TDH => cons(Leaf::Label(1), cons(Leaf::Bytes(s), cons(Leaf::Attr(1, s), cons(Leaf::Attr(2, s), cons(Leaf::Attr(3, s), cons(Leaf::Attr(4, s), L::Nil)))))),
        // packet status, lane faults
        ItsPayloadWord::TDT => cons(Leaf::Label(2), cons(Leaf::Bytes(s), cons(Leaf::Attr(5, s), cons(Leaf::Attr(6, s), L::Nil)))),
        ItsPayloadWord::IHW => cons(Leaf::Label(3), cons(Leaf::Bytes(s), L::Nil)),
        // lane faults
        ItsPayloadWord::DDW0 => cons(Leaf::Label(4), cons(Leaf::Bytes(s), cons(Leaf::Attr(6, s), L::Nil))),
        ItsPayloadWord::CDW => cons(Leaf::Label(5), cons(Leaf::Bytes(s), L::Nil)),
        _ => L::Nil,
    }
}
/// a row: the position column followed by the content of the word's type
pub open spec fn row_content(t: ItsPayloadWord, pos: L, s: Seq<u8>) -> L { app(pos, row_rest(t, s)) }
pub open spec fn simple_type(t: ItsPayloadWord) -> bool {
    t == ItsPayloadWord::DataWord || t == ItsPayloadWord::TDH || t == ItsPayloadWord::TDT || t == ItsPayloadWord::IHW || t == ItsPayloadWord::DDW0 || t == ItsPayloadWord::CDW
}

//@EXTRACT word_row

} // verus!
fn main() {}
