// Verus unit: every error message handed to the statistics channel (a) starts with the upper-case hexadecimal
// offset `0x<HEX>: ` that ErrorStats::sort_error_msgs_by_mem_pos parses with `^0x(?<mem_pos>[0-9A-F]+)` and
// panics on otherwise (C04; the report order C05 depends on it), and (b) that leading offset is the offset of
// the RDH / word / frame the message is about (C07).
//
// The functions / statement fragments that send `StatType::Error` are extracted verbatim. The extraction rule
// `msg_rule: at` replaces each `format!("<literal>", ..)` by `opaque_msg_at(b, e)` where b is computed from the
// literal (does it start with `{<arg>:#X}: `) and e is the argument expression that directive renders. The
// precondition of the channel stand-in's `send` is the obligation "the message is sortable"; the ghost log of the
// stand-in carries the offset into the postconditions.
use vstd::prelude::*;
verus! {

pub struct Msg { pub sortable: bool, pub at: u64, pub bytes: Ghost<Seq<u8>> }   // bytes: the word bytes a message quotes
impl Msg {
    pub fn into(self) -> (r: Msg) ensures r == self { self }
}
#[verifier::external_body]
fn opaque_msg_at(b: bool, at: u64) -> (m: Msg) ensures m.sortable == b, m.at == at { unimplemented!() }
#[verifier::external_body]
fn opaque_msg_shaped(b: bool) -> (m: Msg) ensures m.sortable == b { unimplemented!() }
/// message that renders `at` first and then quotes the given bytes, in this order
#[verifier::external_body]
fn opaque_msg_bytes(b: bool, at: u64, quoted: [u8; 10]) -> (m: Msg) ensures m.sortable == b, m.at == at, m.bytes@ == quoted@ { unimplemented!() }

pub enum StatType { Error(Msg), Other }
pub struct SendErr;
pub open spec fn sendable(x: StatType) -> bool { x matches StatType::Error(m) ==> m.sortable }
/// the log grew by exactly one error message with leading offset `at`
pub open spec fn one_error_at(old_log: Seq<StatType>, new_log: Seq<StatType>, at: u64) -> bool {
    new_log.len() == old_log.len() + 1 && new_log.subrange(0, old_log.len() as int) =~= old_log
    && (new_log.last() matches StatType::Error(m) && m.at == at)
}

pub mod flume {
    use vstd::prelude::*;
    use crate::*;
    pub struct Sender<T> { pub log: Ghost<Seq<T>> }
    impl Sender<StatType> {
        /// OBLIGATION at every call: an error message must be sortable
        #[verifier::external_body]
        pub fn send(&mut self, x: StatType) -> (r: Result<(), SendErr>)
            requires sendable(x) // [C04][C05] an error message that does not start with 0x<UPPER HEX> makes the error sorter panic / mis-order
            ensures r.is_ok(), final(self).log@ == old(self).log@.push(x)
        { unimplemented!() }
    }
}
use flume::Sender;

// ---------------------------------------------------------------- its::util::report_error (whole function)
//@EXTRACT report_error

// ---------------------------------------------------------------- its::lib::do_payload_checks, Err arm
pub struct FsmOwner;
impl FsmOwner { #[verifier::external_body] pub fn reset_fsm(&mut self) { unimplemented!() } }
fn site_payload_error(stats_send_chan: &mut Sender<StatType>, cdp_validator: &mut FsmOwner, rdh_mem_pos: u64, e: Msg) -> (r: Result<(), SendErr>)
    ensures one_error_at(old(stats_send_chan).log@, final(stats_send_chan).log@, rdh_mem_pos) // [C07] reported at the packet's RDH
{
//@EXTRACT payload_error_arm
    Ok(())
}

// ---------------------------------------------------------------- LinkValidator::report_rdh_error, final statement
pub struct LinkValidator { pub stats_send: Sender<StatType> }
impl LinkValidator {
    fn site_report_rdh_error(&mut self, error: Msg, rdh_mem_pos: u64)
        ensures one_error_at(old(self).stats_send.log@, final(self).stats_send.log@, rdh_mem_pos) // [C07] reported at the RDH's own offset
    {
//@EXTRACT rdh_error_send
    }
}

// ---------------------------------------------------------------- CdpRunningValidator::check_tdh_trigger_interval (whole function)
pub struct Tdh;
impl Tdh { #[verifier::external_body] pub fn internal_trigger(&self) -> (r: u8) { unimplemented!() } }
pub struct StatusWords { pub has_tdh: bool }
impl StatusWords {
    #[verifier::external_body] pub fn tdh(&self) -> (r: Option<&Tdh>) ensures r.is_some() == self.has_tdh { unimplemented!() }
    #[verifier::external_body] pub fn tdh_previous_with_internal_trg(&self) -> (r: Option<&Tdh>) { unimplemented!() }
}
pub struct TdhValidator;
impl TdhValidator {
    #[verifier::external_body]
    pub fn check_trigger_interval(tdh: &Tdh, prev: &Tdh, period: u16) -> (r: Result<(), Msg>) { unimplemented!() }
}
pub struct Cfg;
impl Cfg { #[verifier::external_body] pub fn check_its_trigger_period(&self) -> (r: Option<u16>) { unimplemented!() } }
pub struct CdpTracker { pub pos: u64 }
impl CdpTracker { pub fn current_word_mem_pos(&self) -> (r: u64) ensures r == self.pos { self.pos } }
pub struct CdpRunningValidator {
    pub config: Cfg,
    pub status_words: StatusWords,
    pub tracker: CdpTracker,
    pub stats_send_ch: Sender<StatType>,
}
impl CdpRunningValidator {
//@EXTRACT check_tdh_trigger_interval
}

// (the three message sites of ItsReadoutFrameValidator::process_frame / report_empty_alpide_frame_error are checked on the whole
// functions in unit v_process_frame)

} // verus!
impl core::fmt::Debug for SendErr { fn fmt(&self, _f: &mut core::fmt::Formatter<'_>) -> core::fmt::Result { Ok(()) } }
fn main() {}
