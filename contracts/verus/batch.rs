// Verus unit: alice_protocol_reader::get_array_batch / get_vec_batch (extracted verbatim; loop invariants
// inserted): a batch is the longest prefix of successfully loaded packets (at most CAP), in order; end of
// input or a fatal framing error ends the batch without losing the packets loaded before it; an empty batch
// is UnexpectedEof. (C18: the intact prefix is still analysed; C03: batch-size independence.)
use vstd::prelude::*;
verus! {

#[derive(PartialEq, Eq, Structural, Clone, Copy)]
pub enum IoErrorKind { InvalidInput, UnexpectedEof, InvalidData, Other }
pub struct IoError { pub k: IoErrorKind }
impl IoError {
    pub fn kind(&self) -> (r: IoErrorKind) ensures r == self.k { self.k }
    pub fn new(k: IoErrorKind, _m: &str) -> (r: IoError) ensures r.k == k { IoError { k } }
}
pub mod io {
    pub use crate::IoErrorKind as ErrorKind;
    pub use crate::IoError as Error;
}

pub trait RDH: Sized { spec fn id(&self) -> int; }

/// the stream as seen by load_cdp: the k-th call returns outcome(k)
pub struct InputScanner { pub calls: Ghost<int> }
pub uninterp spec fn outcome_ok(k: int) -> bool;       // k-th load_cdp succeeds
pub uninterp spec fn outcome_err(k: int) -> IoErrorKind; // kind of the error otherwise
pub uninterp spec fn outcome_pos(k: int) -> u64;
impl InputScanner {
    #[verifier::external_body]
    pub fn load_cdp<T: RDH>(&mut self) -> (r: Result<(T, Vec<u8>, u64), io::Error>)
        ensures final(self).calls@ == old(self).calls@ + 1,
            r.is_ok() == outcome_ok(old(self).calls@),
            r matches Ok(t) ==> t.2 == outcome_pos(old(self).calls@),
            r matches Err(e) ==> e.k == outcome_err(old(self).calls@)
    { unimplemented!() }
}

pub struct CdpArray<T, const CAP: usize> { pub pos: Ghost<Seq<u64>>, pub _p: core::marker::PhantomData<T> }
impl<T, const CAP: usize> CdpArray<T, CAP> {
    #[verifier::external_body]
    pub fn new_const() -> (r: Self) ensures r.pos@.len() == 0 { unimplemented!() }
    #[verifier::external_body]
    pub fn push(&mut self, rdh: T, payload: Vec<u8>, mem_pos: u64)
        requires old(self).pos@.len() < CAP
        ensures final(self).pos@ == old(self).pos@.push(mem_pos)
    { unimplemented!() }
    #[verifier::external_body]
    pub fn is_empty(&self) -> (r: bool) ensures r == (self.pos@.len() == 0) { unimplemented!() }
}

/// number of consecutive successful loads starting at call index c0, capped at cap
pub open spec fn ok_prefix(c0: int, cap: int) -> int
    decreases cap
{
    if cap <= 0 || !outcome_ok(c0) { 0 } else { 1 + ok_prefix(c0 + 1, cap - 1) }
}

//@EXTRACT get_array_batch

} // verus!
fn main() {}
