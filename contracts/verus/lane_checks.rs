// Verus unit: LaneAlpideFrameAnalyzer::do_lane_alpide_checks (extracted verbatim), verified modularly: a lane
// is in error iff its bunch counters mismatch, or its chip count is wrong, or (count right) its chip order is
// wrong. The three predicates are opaque here (Kani: full_alpide_chip_count, full_alpide_chip_order_ib,
// full_bunch_counters_empty_nopanic).
use vstd::prelude::*;
verus! {

pub struct Msg;
#[verifier::external_body]
fn opaque_msg() -> Msg { Msg }

/// error text buffer: only emptiness matters
pub struct ErrBuf { pub n: Ghost<int> }
impl ErrBuf {
    #[verifier::external_body]
    pub fn push_str(&mut self, s: &Msg) ensures final(self).n@ == old(self).n@ + 1 { unimplemented!() }
    #[verifier::external_body]
    pub fn is_empty(&self) -> (r: bool) ensures r == (self.n@ == 0) { unimplemented!() }
}

pub struct LaneAlpideFrameAnalyzer {
    pub errors: Option<ErrBuf>,
    pub bc_bad: Ghost<bool>,
    pub count_bad: Ghost<bool>,
    pub order_bad: Ghost<bool>,
    pub order_checked: Ghost<bool>,
}

impl LaneAlpideFrameAnalyzer {
    #[verifier::external_body]
    fn check_bunch_counters(&mut self) -> (r: Result<(), Msg>)
        ensures r.is_err() == old(self).bc_bad@, final(self).errors == old(self).errors, final(self).bc_bad == old(self).bc_bad,
            final(self).count_bad == old(self).count_bad, final(self).order_bad == old(self).order_bad, final(self).order_checked == old(self).order_checked
    { unimplemented!() }
    #[verifier::external_body]
    fn check_chip_count(&self) -> (r: Result<(), Msg>) ensures r.is_err() == self.count_bad@ { unimplemented!() }
    #[verifier::external_body]
    fn check_chip_id_order(&self) -> (r: Result<(), Msg>) ensures r.is_err() == self.order_bad@ { unimplemented!() }

//@EXTRACT has_errors

//@EXTRACT do_lane_alpide_checks
}

} // verus!
fn main() {}
