// Verus unit: LaneAlpideFrameAnalyzer::{analyze_alpide_frame, do_lane_alpide_checks, has_errors} (extracted verbatim),
// verified modularly. The analyzer state relevant here is a function of the bytes decoded so far (a fresh analyzer per
// lane: check_alpide_data_frame, unit v_frame_lanes), written as uninterpreted functions of that byte sequence; the
// decoder step and the three lane predicates are opaque here (Kani: full_alpide_decode_step, full_alpide_chip_count,
// full_alpide_chip_order_ib, bnd_alpide_chip_order_ob, full_bunch_counters_empty_nopanic).
//   * analyze_alpide_frame decodes every byte of the lane exactly once, in order, and records the lane's number;
//   * a lane that announced a fatal state is not judged (Ok), whatever else its data contains;
//   * otherwise the lane is in error iff decoding already recorded an error, or its bunch counters mismatch (E9003),
//     or its chip count is wrong (E9004), or - only when the count is right - its chip order is wrong (E9005).
use vstd::prelude::*;
use vstd::std_specs::iter::IteratorSpec;
verus! {

pub struct Msg;
#[verifier::external_body]
fn opaque_msg() -> Msg { Msg }

/// error text buffer: only the number of appended messages matters
pub struct ErrBuf { pub n: Ghost<int> }
impl ErrBuf {
    #[verifier::external_body]
    pub fn push_str(&mut self, s: &Msg) ensures final(self).n@ == old(self).n@ + 1 { unimplemented!() }
    #[verifier::external_body]
    pub fn is_empty(&self) -> (r: bool) ensures r == (self.n@ == 0) { unimplemented!() }
}

#[derive(PartialEq, Eq, Structural, Clone, Copy)]
pub enum Layer { Inner, Middle, Outer }
pub struct LaneDataFrame { pub id: u8, pub bytes: Vec<u8> }
pub uninterp spec fn lane_no(id: u8, layer: Layer) -> u8;
impl LaneDataFrame {
    #[verifier::external_body]
    pub fn lane_number(&self, from_layer: Layer) -> (r: u8) ensures r == lane_no(self.id, from_layer) { unimplemented!() }
    pub fn id(&self) -> (r: u8) ensures r == self.id { self.id }
    #[verifier::external_body]
    pub fn data(&self) -> (r: &[u8]) ensures r@ == self.bytes@ { unimplemented!() }
}

// what the analyzer knows after decoding a byte sequence from a fresh state
pub uninterp spec fn fatal_of(b: Seq<u8>) -> bool;
pub uninterp spec fn decode_errs(b: Seq<u8>) -> int;
pub uninterp spec fn bc_bad_of(b: Seq<u8>) -> bool;
pub uninterp spec fn count_bad_of(b: Seq<u8>) -> bool;
pub uninterp spec fn order_bad_of(b: Seq<u8>) -> bool;

pub struct LaneAlpideFrameAnalyzer {
    pub lane_number: u8,
    pub from_layer: Option<Layer>,
    pub lane_status_fatal: bool,
    pub errors: Option<ErrBuf>,
    pub decoded: Ghost<Seq<u8>>,
}

impl LaneAlpideFrameAnalyzer {
    /// decoded-so-far determines the flags (fresh analyzer per lane)
    pub open spec fn inv(&self) -> bool {
        self.lane_status_fatal == fatal_of(self.decoded@) && (self.errors matches Some(e) && e.n@ == decode_errs(self.decoded@)) && decode_errs(self.decoded@) >= 0
    }
    /// one decoder step (Kani full_alpide_decode_step)
    #[verifier::external_body]
    fn decode(&mut self, alpide_byte: u8)
        requires old(self).inv()
        ensures final(self).inv(), final(self).decoded@ == old(self).decoded@.push(alpide_byte), final(self).lane_number == old(self).lane_number, final(self).from_layer == old(self).from_layer
    { unimplemented!() }
    #[verifier::external_body]
    fn check_bunch_counters(&mut self) -> (r: Result<(), Msg>)
        ensures r.is_err() == bc_bad_of(old(self).decoded@), *final(self) == *old(self)
    { unimplemented!() }
    #[verifier::external_body]
    fn check_chip_count(&self) -> (r: Result<(), Msg>) ensures r.is_err() == count_bad_of(self.decoded@) { unimplemented!() }
    #[verifier::external_body]
    fn check_chip_id_order(&self) -> (r: Result<(), Msg>) ensures r.is_err() == order_bad_of(self.decoded@) { unimplemented!() }

//@EXTRACT has_errors

//@EXTRACT do_lane_alpide_checks

//@EXTRACT analyze_alpide_frame
}

} // verus!
fn main() {}
