// Verus unit: LinkValidator::do_rdh_checks / do_checks (extracted verbatim), verified modularly:
// which checks run in which mode, and that RDH errors are reported at the packet's own offset.
use vstd::prelude::*;
verus! {

#[derive(PartialEq, Eq, Structural, Clone, Copy)]
pub enum System { ITS, ITS_Stave }

pub struct CheckCommands { pub t: Option<System> }
impl CheckCommands {
    pub fn target(&self) -> (r: Option<System>) ensures r == self.t { self.t }
}
pub struct Cfg { pub chk: Option<CheckCommands> }
impl Cfg {
    #[verifier::external_body]
    pub fn check(&self) -> (r: Option<CheckCommands>) ensures r == self.chk { unimplemented!() }
}

pub struct Rdh { pub id: int }
pub struct Msg;
pub struct Sender;
pub struct CdpValidator { pub payload_checks: Ghost<Seq<(int, nat, u64)>> } // (rdh, payload length, offset) of every payload handed over
pub struct RecvErr;
/// channel from the dispatcher: the packets of this link still to come, in order; Err when the dispatcher has dropped the sender
pub struct Receiver { pub queue: Ghost<Seq<int>>, pub taken: Ghost<Seq<int>> }
impl Receiver {
    #[verifier::external_body]
    pub fn recv(&mut self) -> (r: Result<CdpTuple<Rdh>, RecvErr>)
        ensures
            (r matches Ok(t) ==> old(self).queue@.len() > 0 && t.0.id == old(self).queue@[0]
                && final(self).queue@ == old(self).queue@.subrange(1, old(self).queue@.len() as int) && final(self).taken@ == old(self).taken@.push(t.0.id)),
            (r is Err ==> final(self).queue == old(self).queue && final(self).taken == old(self).taken),
    { unimplemented!() }
}
pub struct RingBuf { pub pushed: Ghost<Seq<int>> }
impl RingBuf {
    #[verifier::external_body]
    pub fn push(&mut self, rdh: Rdh) ensures final(self).pushed@ == old(self).pushed@.push(rdh.id) { unimplemented!() }
}

pub uninterp spec fn sanity_fails(v: int, rdh: int) -> bool;
pub uninterp spec fn running_fails(v: int, rdh: int) -> bool;

pub struct SanityValidator { pub st: Ghost<int>, pub calls: Ghost<int> }
impl SanityValidator {
    #[verifier::external_body]
    pub fn sanity_check(&mut self, rdh: &Rdh) -> (r: Result<(), Msg>)
        ensures r.is_err() == sanity_fails(old(self).st@, rdh.id), final(self).calls@ == old(self).calls@ + 1
    { unimplemented!() }
}
pub struct RunningChecker { pub st: Ghost<int>, pub calls: Ghost<int> }
impl RunningChecker {
    #[verifier::external_body]
    pub fn check(&mut self, rdh: &Rdh) -> (r: Result<(), Msg>)
        ensures r.is_err() == running_fails(old(self).st@, rdh.id), final(self).calls@ == old(self).calls@ + 1
    { unimplemented!() }
}

pub mod its { pub mod lib {
    use vstd::prelude::*;
    use crate::*;
    /// its::lib::do_payload_checks: recorded as an event (verified separately: Kani bnd_do_payload_checks)
    #[verifier::external_body]
    pub fn do_payload_checks(cdp: (&Rdh, &Vec<u8>, u64), stats_send_chan: &Sender, cdp_validator: &mut CdpValidator) -> (r: Result<(), Msg>)
        ensures r.is_ok(), final(cdp_validator).payload_checks@ == old(cdp_validator).payload_checks@.push((cdp.0.id, cdp.1@.len(), cdp.2))
    { unimplemented!() }
} }

pub type CdpTuple<T> = (T, Vec<u8>, u64);

pub mod link_validator {
use vstd::prelude::*;
use crate::*;
pub struct LinkValidator {
    pub config: Cfg,
    pub running_checks: bool,
    pub stats_send: Sender,
    pub its_cdp_validator: CdpValidator,
    pub rdh_running_validator: RunningChecker,
    pub rdh_sanity_validator: SanityValidator,
    pub prev_rdhs: RingBuf,
    pub data_recv_chan: Receiver,
    pub reported_at: Ghost<Seq<u64>>,   // offsets of the RDH errors reported
}

impl LinkValidator {
    #[verifier::external_body]
    fn report_rdh_error(&mut self, rdh: &Rdh, error: Msg, rdh_mem_pos: u64)
        ensures final(self).reported_at@ == old(self).reported_at@.push(rdh_mem_pos),
            final(self).running_checks == old(self).running_checks, final(self).config == old(self).config,
            final(self).rdh_running_validator == old(self).rdh_running_validator, final(self).rdh_sanity_validator == old(self).rdh_sanity_validator,
            final(self).prev_rdhs == old(self).prev_rdhs, final(self).its_cdp_validator == old(self).its_cdp_validator,
            final(self).data_recv_chan == old(self).data_recv_chan
    { unimplemented!() }

//@EXTRACT do_rdh_checks

//@EXTRACT do_checks

//@EXTRACT run
}
}

pub open spec fn b2i(b: bool) -> int { if b { 1 } else { 0 } }

} // verus!
impl core::fmt::Debug for Msg { fn fmt(&self, _f: &mut core::fmt::Formatter<'_>) -> core::fmt::Result { Ok(()) } }
fn main() {}
