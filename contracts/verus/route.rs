// Verus unit (C06): ValidatorDispatcher::{dispatch_cdp_batch, dispatch_by_id, init_validator} and DispatchId, extracted.
// View of the dispatcher: routes = one (id, channel log) pair per validator, processors[i] owning process_channels[i].
//   * dispatch_by_id appends the packet to the log of the validator owning `id` - creating that validator, its channel
//     and its thread exactly when the id is new - and leaves every other validator's log, and the set and order of the
//     existing validators, untouched;
//   * dispatch_cdp_batch does that for every packet of the batch in batch order, with id = FEE id of the packet in
//     stave mode, link id otherwise: the log of each validator grows by exactly the batch's packets carrying its id,
//     in order (lemma_route_projection) - packets of other ids never reach it.
// Together with v_analysis_loop (every batch reaches the dispatcher once, in order) and v_link (a validator checks
// every packet of its channel once, in order, with the state it owns) a validator sees exactly its own id's packets in
// input order, whatever other traffic is interleaved. That validator state is not shared is Rust ownership (the
// validator is moved into its thread), not a contract.
use vstd::prelude::*;
verus! {

//@EXTRACT dispatch_id_enum
impl DispatchId {
//@EXTRACT dispatch_id_number
}

// ---- stand-ins
/// std::result::Result::unwrap_or_else (not specified in vstd)
#[verifier::allow(undeclared_external_trait)]
pub assume_specification<T, E, F: FnOnce(E) -> T>[ Result::<T, E>::unwrap_or_else ](r: Result<T, E>, f: F) -> (t: T)
    where F: core::marker::Destruct
    requires r matches Err(e) ==> f.requires((e,)),
    ensures r matches Ok(v) ==> t == v, r matches Err(e) ==> f.ensures((e,), t);

pub struct Rdh { pub pid: int, pub fee: u16, pub link: u8 }
impl Rdh {
    #[verifier::external_body]
    pub fn fee_id(&self) -> (r: u16) ensures r == self.fee { unimplemented!() }
    #[verifier::external_body]
    pub fn link_id(&self) -> (r: u8) ensures r == self.link { unimplemented!() }
}
pub type CdpTuple = (Rdh, Vec<u8>, u64);
pub struct SendErr;
pub struct Msg;
#[verifier::external_body]
pub fn opaque_msg() -> Msg { unimplemented!() }
impl Msg {
    #[verifier::external_body]
    pub fn into_boxed_str(self) -> Msg { unimplemented!() }
}
pub enum StatType { Fatal(Msg) }
pub mod flume {
    use vstd::prelude::*;
    use crate::*;
    /// channel to the statistics collector, which outlives the dispatcher (it is joined last)
    pub struct Sender;
    impl Sender {
        #[verifier::external_body]
        pub fn send(&self, x: StatType) -> (r: Result<(), SendErr>) ensures r is Ok { unimplemented!() }
        #[verifier::external_body]
        pub fn clone(&self) -> Sender { unimplemented!() }
    }
}
pub mod crossbeam_channel {
    use vstd::prelude::*;
    use crate::*;
    /// sending end of a validator's channel: ghost log of the packets accepted, in order; Err only when the
    /// validator has gone (its thread ended), which `gone` records
    pub struct Sender { pub cid: Ghost<int>, pub log: Ghost<Seq<CdpTuple>>, pub gone: Ghost<bool> }
    impl Sender {
        #[verifier::external_body]
        pub fn send(&mut self, t: CdpTuple) -> (r: Result<(), SendErr>)
            ensures final(self).cid == old(self).cid,
                r is Ok ==> final(self).log@ == old(self).log@.push(t) && final(self).gone == old(self).gone,
                r is Err ==> final(self).log == old(self).log && final(self).gone@,
        { unimplemented!() }
    }
}
pub struct Config;
/// a link validator, reading from the channel with ghost id `cid` (LinkValidator::with_chan_capacity creates both ends)
pub struct LinkValidator { pub cid: Ghost<int> }
impl LinkValidator {
    #[verifier::external_body]
    pub fn with_chan_capacity(global_config: &'static Config, stats_send_chan: flume::Sender, chan_capacity: Option<usize>) -> (r: (LinkValidator, crossbeam_channel::Sender))
        ensures r.0.cid == r.1.cid, r.1.log@.len() == 0, !r.1.gone@
    { unimplemented!() }
    #[verifier::external_body]
    pub fn run(&mut self) { unimplemented!() }
}
pub mod thread { use vstd::prelude::*; pub struct JoinHandle { pub cid: Ghost<int> } }
pub struct SpawnErr;
/// std::thread::Builder: the spawned closure is abstracted to the channel id of the validator it runs; spawning
/// succeeds unless the OS refuses a thread (then the code panics: `expect("Failed to spawn link validator thread")`)
pub struct Builder;
impl Builder {
    #[verifier::external_body]
    pub fn new() -> Builder { unimplemented!() }
    #[verifier::external_body]
    pub fn name(self, n: Msg) -> Builder { unimplemented!() }
    #[verifier::external_body]
    pub fn spawn(self, f: ThreadBody) -> (r: Result<thread::JoinHandle, SpawnErr>)
        ensures r matches Ok(h) && h.cid == f.cid
    { unimplemented!() }
}
/// the thread closure `move || { validator.run(); }`: runs the validator moved into it
pub struct ThreadBody { pub cid: Ghost<int> }
#[verifier::external_body]
pub fn thread_body(validator: LinkValidator) -> (r: ThreadBody) ensures r.cid == validator.cid { unimplemented!() }

/// a batch of packets (CdpArray: arrayvec-backed; not verified here)
pub struct CdpArray<const CAP: usize> { pub items: Ghost<Seq<CdpTuple>> }
pub struct CdpIntoIter { pub items: Ghost<Seq<CdpTuple>>, pub pos: Ghost<int> }
impl<const CAP: usize> CdpArray<CAP> {
    #[verifier::external_body]
    pub fn into_iter(self) -> (r: CdpIntoIter) ensures r.items == self.items, r.pos@ == 0 { unimplemented!() }
}
impl Iterator for CdpIntoIter {
    type Item = CdpTuple;
    #[verifier::external_body]
    fn next(&mut self) -> (r: Option<CdpTuple>) { unimplemented!() }
}
impl vstd::std_specs::iter::IteratorSpecImpl for CdpIntoIter {
    open spec fn obeys_prophetic_iter_laws(&self) -> bool { true }
    open spec fn remaining(&self) -> Seq<CdpTuple> { self.items@.subrange(self.pos@, self.items@.len() as int) }
    open spec fn will_return_none(&self) -> bool { true }
    open spec fn peek(&self, index: int) -> Option<CdpTuple> {
        if 0 <= index < self.items@.len() - self.pos@ { Some(self.items@[self.pos@ + index]) } else { None }
    }
    open spec fn decrease(&self) -> Option<nat> { Some((self.items@.len() - self.pos@) as nat) }
}

/// Vec<DispatchId> stand-in (std's `iter().position(..)` is outside vstd)
pub struct Procs { pub v: Vec<DispatchId> }
pub struct ProcIter<'a> { pub s: &'a Procs }
impl Procs {
    pub open spec fn view(&self) -> Seq<DispatchId> { self.v@ }
    #[verifier::external_body]
    pub fn new() -> (r: Procs) ensures r@.len() == 0 { unimplemented!() }
    #[verifier::external_body]
    pub fn push(&mut self, id: DispatchId) ensures final(self)@ == old(self)@.push(id) { unimplemented!() }
    #[verifier::external_body]
    pub fn len(&self) -> (r: usize) ensures r == self@.len() { unimplemented!() }
    #[verifier::external_body]
    pub fn iter<'a>(&'a self) -> (r: ProcIter<'a>) ensures r.s == self { unimplemented!() }
}
impl<'a> ProcIter<'a> {
    /// index of the first element satisfying the predicate
    #[verifier::external_body]
    pub fn position<F: Fn(&DispatchId) -> bool>(self, f: F) -> (r: Option<usize>)
        requires forall|i: int| 0 <= i < self.s@.len() ==> f.requires((&self.s@[i],)),
        ensures
            r matches Some(k) ==> k < self.s@.len() && f.ensures((&self.s@[k as int],), true) && forall|i: int| 0 <= i < k ==> f.ensures((&self.s@[i],), false),
            r is None ==> forall|i: int| 0 <= i < self.s@.len() ==> f.ensures((&self.s@[i],), false),
    { unimplemented!() }
}

// ---- the dispatcher's abstract view
//@EXTRACT dispatcher_struct

pub open spec fn index_of(ps: Seq<DispatchId>, id: DispatchId) -> int decreases ps.len() {
    if ps.len() == 0 { -1 } else if ps[0] == id { 0 } else { let r = index_of(ps.subrange(1, ps.len() as int), id); if r < 0 { -1 } else { r + 1 } }
}
pub open spec fn distinct(ps: Seq<DispatchId>) -> bool { forall|i: int, j: int| 0 <= i < j < ps.len() ==> ps[i] != ps[j] }
/// what the packet is routed by: FEE id in stave mode, link id otherwise
pub open spec fn id_of(by: DispatchId, p: CdpTuple) -> DispatchId {
    match by { DispatchId::FeeId(_) => DispatchId::FeeId(p.0.fee), DispatchId::GbtLink(_) => DispatchId::GbtLink(p.0.link as u16) }
}

impl ValidatorDispatcher {
    pub open spec fn wf(&self) -> bool {
        &&& self.processors@.len() == self.process_channels@.len()
        &&& self.processors@.len() == self.validator_thread_handles@.len()
        &&& distinct(self.processors@)
    }
    /// no validator thread has ended prematurely (a send to a gone validator is reported as fatal and the packet dropped)
    pub open spec fn alive(&self) -> bool { forall|i: int| 0 <= i < self.process_channels@.len() ==> !(#[trigger] self.process_channels@[i]).gone@ }
    /// the packets handed to validator i so far (none if it does not exist yet)
    pub open spec fn log_at(&self, i: int) -> Seq<CdpTuple> { if 0 <= i < self.process_channels@.len() { self.process_channels@[i].log@ } else { Seq::empty() } }

//@EXTRACT dispatch_cdp_batch

//@EXTRACT init_validator

//@EXTRACT dispatch_by_id
}

/// the per-validator logs after routing the first n packets of a batch one by one
pub open spec fn routed(by: DispatchId, before: Seq<CdpTuple>, pkts: Seq<CdpTuple>, n: int, id: DispatchId) -> Seq<CdpTuple> decreases n {
    if n <= 0 { before } else if id_of(by, pkts[n - 1]) == id { routed(by, before, pkts, n - 1, id).push(pkts[n - 1]) } else { routed(by, before, pkts, n - 1, id) }
}
pub proof fn lemma_routed_unchanged(by: DispatchId, before: Seq<CdpTuple>, pkts: Seq<CdpTuple>, n: int, id: DispatchId)
    requires 0 <= n <= pkts.len(), forall|j: int| 0 <= j < n ==> id_of(by, #[trigger] pkts[j]) != id
    ensures routed(by, before, pkts, n, id) == before
    decreases n
{
    if n > 0 { lemma_routed_unchanged(by, before, pkts, n - 1, id); }
}
/// [C06] ... which is: the earlier log followed by exactly the batch's packets that carry this id, in batch order
pub proof fn lemma_route_projection(by: DispatchId, before: Seq<CdpTuple>, pkts: Seq<CdpTuple>, n: int, id: DispatchId)
    requires 0 <= n <= pkts.len()
    ensures routed(by, before, pkts, n, id) =~= before + pkts.subrange(0, n).filter(|p: CdpTuple| id_of(by, p) == id)
    decreases n
{
    reveal(Seq::filter);
    if n > 0 {
        lemma_route_projection(by, before, pkts, n - 1, id);
        assert(pkts.subrange(0, n).drop_last() =~= pkts.subrange(0, n - 1));
        assert(pkts.subrange(0, n).last() == pkts[n - 1]);
    } else {
        assert(pkts.subrange(0, 0) =~= Seq::<CdpTuple>::empty());
    }
}

} // verus!
impl core::fmt::Debug for SendErr { fn fmt(&self, _f: &mut core::fmt::Formatter<'_>) -> core::fmt::Result { Ok(()) } }
impl core::fmt::Debug for SpawnErr { fn fmt(&self, _f: &mut core::fmt::Formatter<'_>) -> core::fmt::Result { Ok(()) } }
fn main() {}
