// Verus unit: TdhValidator::matches_trigger_interval (extracted verbatim from /repo each run)
use vstd::prelude::*;
verus! {

pub struct Tdh;
impl Tdh {
    //@EXTRACT max_bc
}

pub open spec fn spec_period(current: int, previous: int) -> int {
    (current - previous) % 3564
}

pub struct TdhValidator;
impl TdhValidator {
//@EXTRACT matches_trigger_interval
}

// The property statement: for consecutive internal-trigger TDHs the error is reported iff the
// bunch-crossing distance modulo the orbit length 3564 differs from P.
proof fn lemma_period_examples()
{
    assert(spec_period(10, 3560) == 14);
    assert(spec_period(3563, 0) == 3563);
    assert(spec_period(0, 0) == 0);
}

} // verus!
fn main() {}
