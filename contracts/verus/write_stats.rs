// Verus unit: StatsCollector::write_stats / write_stats_str (extracted verbatim): the statistics are written exactly
// once, to the configured destination, serialised in the configured format (JSON by serde_json, TOML by toml), and
// nothing is written when no statistics output is configured (C15: what is written is what a later run reads back).
use vstd::prelude::*;
verus! {

#[derive(PartialEq, Eq, Structural, Clone, Copy)]
pub enum Fmt { Json, Toml }
pub struct PathBuf { pub id: int }
pub enum DataOutputMode { File(PathBuf), Stdout, None }
impl PartialEq for DataOutputMode {
    #[verifier::external_body]
    fn eq(&self, other: &DataOutputMode) -> (r: bool)
        ensures r == ((*self is None && *other is None) || (*self is Stdout && *other is Stdout) || (*self matches DataOutputMode::File(a) && *other matches DataOutputMode::File(b) && a.id == b.id))
    { unimplemented!() }
}
#[allow(clippy::upper_case_acronyms)]
#[derive(PartialEq, Eq, Structural, Clone, Copy)]
pub enum DataOutputFormat { JSON, TOML }

/// serialised statistics: which serialiser produced it
pub struct Text { pub fmt: Fmt }
pub struct SerErr;
pub struct StatsCollector;
pub mod serde_json {
    use vstd::prelude::*;
    use crate::*;
    #[verifier::external_body]
    pub fn to_string_pretty(v: &&StatsCollector) -> (r: Result<Text, SerErr>) ensures r matches Ok(t) && t.fmt == Fmt::Json { unimplemented!() }
}
pub mod toml {
    use vstd::prelude::*;
    use crate::*;
    #[verifier::external_body]
    pub fn to_string_pretty(v: &&StatsCollector) -> (r: Result<Text, SerErr>) ensures r matches Ok(t) && t.fmt == Fmt::Toml { unimplemented!() }
}
/// what was written where: (destination: 0 = stdout, 1 = file, path id, format of the text)
pub struct World { pub written: Ghost<Seq<(int, int, Fmt)>> }
pub mod fs {
    use vstd::prelude::*;
    use crate::*;
    #[verifier::external_body]
    pub fn write(w: &mut World, path: &PathBuf, s: &Text) -> (r: Result<(), SerErr>)
        ensures r.is_ok(), final(w).written@ == old(w).written@.push((1int, path.id, s.fmt))
    { unimplemented!() }
}
#[verifier::external_body]
pub fn print_line(w: &mut World, s: &Text) ensures final(w).written@ == old(w).written@.push((0int, 0int, s.fmt)) { unimplemented!() }

pub open spec fn expected(mode: DataOutputMode, format: DataOutputFormat) -> Seq<(int, int, Fmt)> {
    let f = if format == DataOutputFormat::JSON { Fmt::Json } else { Fmt::Toml };
    match mode {
        DataOutputMode::None => Seq::empty(),
        DataOutputMode::Stdout => seq![(0int, 0int, f)],
        DataOutputMode::File(p) => seq![(1int, p.id, f)],
    }
}
impl StatsCollector {
//@EXTRACT ws_main
}
//@EXTRACT ws_str

} // verus!
impl core::fmt::Debug for SerErr { fn fmt(&self, _f: &mut core::fmt::Formatter<'_>) -> core::fmt::Result { Ok(()) } }
fn main() {}
