// Verus unit: `view rdh` (rdh_view, statements after the stdout lock is taken, extracted verbatim; `row_rule` turns each
// writeln! into the ordered list of what it renders): one header row, then one row per visited RDH, in input order,
// showing the packet's offset followed by the RDH's own row - in both the styled and the unstyled branch.
use vstd::prelude::*;
verus! {

pub enum Leaf { Num(int), Header }
pub enum L { Nil, Cons(Leaf, Box<L>) }
pub open spec fn app(a: L, b: L) -> L decreases a {
    match a { L::Nil => b, L::Cons(h, t) => L::Cons(h, Box::new(app(*t, b))) }
}
pub open spec fn num(x: int) -> L { L::Cons(Leaf::Num(x), Box::new(L::Nil)) }
pub trait AsTok { spec fn tok(&self) -> L; }
pub struct Token { pub l: Ghost<L> }
impl AsTok for Token { open spec fn tok(&self) -> L { self.l@ } }
impl AsTok for u64 { open spec fn tok(&self) -> L { num(*self as int) } }
impl<T: AsTok> AsTok for &T { open spec fn tok(&self) -> L { (**self).tok() } }
impl Token {
    pub fn white(self) -> (r: Token) ensures r.l@ == self.l@ { self }
    pub fn bold(self) -> (r: Token) ensures r.l@ == self.l@ { self }
    pub fn bg_rgb<const R: u8, const G: u8, const B: u8>(self) -> (r: Token) ensures r.l@ == self.l@ { self }
}
#[verifier::external_body] pub fn tok_nil() -> (r: Token) ensures r.l@ == L::Nil { unimplemented!() }
#[verifier::external_body] pub fn tok_missing() -> (r: Token) ensures r.l@ == L::Nil { unimplemented!() }
#[verifier::external_body] pub fn tok_cons<T: AsTok>(p: &T, rest: Token) -> (r: Token) ensures r.l@ == app(p.tok(), rest.l@) { unimplemented!() }

pub struct IoErr;
pub struct StdoutLock { pub rows: Ghost<Seq<L>> }
#[verifier::external_body]
pub fn emit_row(w: &mut StdoutLock, row: Token) -> (r: Result<(), IoErr>)
    ensures r.is_ok() ==> final(w).rows@ == old(w).rows@.push(row.l@), r.is_err() ==> final(w).rows@ == old(w).rows@
{ unimplemented!() }

/// an RDH: its row content (columns: unit v_rdh_rows) is an uninterpreted list
pub struct Rdh { pub id: int }
pub uninterp spec fn rdh_row(id: int) -> L;
impl AsTok for Rdh { open spec fn tok(&self) -> L { rdh_row(self.id) } }
impl Rdh {
    /// RdhCru::to_styled_row_view: same content as the unstyled row (unit v_rdh_rows)
    #[verifier::external_body] pub fn to_styled_row_view(&self) -> (r: Token) ensures r.l@ == rdh_row(self.id) { unimplemented!() }
}
pub struct RdhCru;
impl RdhCru {
    #[verifier::external_body] pub fn rdh_header_text_with_indent_to_string(n: u16) -> (r: Token) ensures r.l@ == L::Cons(Leaf::Header, Box::new(L::Nil)) { unimplemented!() }
    #[verifier::external_body] pub fn rdh_header_styled_text_with_indent_to_string(n: u16) -> (r: Token) ensures r.l@ == L::Cons(Leaf::Header, Box::new(L::Nil)) { unimplemented!() }
}

/// a batch: (header, payload, offset) in input order
pub struct CdpArray<'a> { pub items: Ghost<Seq<(&'a Rdh, &'a [u8], u64)>> }
pub struct CdpIter<'a> { pub items: Ghost<Seq<(&'a Rdh, &'a [u8], u64)>>, pub pos: Ghost<int> }
impl<'a> Iterator for CdpIter<'a> {
    type Item = (&'a Rdh, &'a [u8], u64);
    #[verifier::external_body]
    fn next(&mut self) -> (r: Option<(&'a Rdh, &'a [u8], u64)>) { unimplemented!() }
}
impl<'a> vstd::std_specs::iter::IteratorSpecImpl for CdpIter<'a> {
    open spec fn obeys_prophetic_iter_laws(&self) -> bool { true }
    open spec fn remaining(&self) -> Seq<(&'a Rdh, &'a [u8], u64)> { self.items@.subrange(self.pos@, self.items@.len() as int) }
    open spec fn will_return_none(&self) -> bool { true }
    open spec fn peek(&self, index: int) -> Option<(&'a Rdh, &'a [u8], u64)> {
        if 0 <= index < self.items@.len() - self.pos@ { Some(self.items@[self.pos@ + index]) } else { None }
    }
    open spec fn decrease(&self) -> Option<nat> { Some((self.items@.len() - self.pos@) as nat) }
}
impl<'a, 'b> IntoIterator for &'b CdpArray<'a> {
    type Item = (&'a Rdh, &'a [u8], u64);
    type IntoIter = CdpIter<'a>;
    #[verifier::external_body]
    fn into_iter(self) -> (r: CdpIter<'a>) ensures r.items == self.items, r.pos@ == 0 { unimplemented!() }
}

pub open spec fn header_row() -> L { L::Cons(Leaf::Header, Box::new(L::Nil)) }
pub open spec fn rdh_rows(items: Seq<(&Rdh, &[u8], u64)>, n: int) -> Seq<L> decreases n {
    if n <= 0 { seq![header_row()] } else { rdh_rows(items, n - 1).push(app(num(items[n - 1].2 as int), app(rdh_row(items[n - 1].0.id), L::Nil))) }
}

fn site_rdh_view<'a>(cdp_array: &CdpArray<'a>, disable_styled_view: bool, stdio_lock: &mut StdoutLock) -> (r: Result<(), IoErr>)
    requires old(stdio_lock).rows@.len() == 0, cdp_array.items@.len() < 100000,
    ensures r.is_ok() ==> final(stdio_lock).rows@ =~= rdh_rows(cdp_array.items@, cdp_array.items@.len() as int), // [C19] one header row, then one row per visited RDH, in order: its offset and its own field values - styled or not
{
    proof { reveal_with_fuel(app, 6); }
//@EXTRACT rdh_view_block
}

} // verus!
fn main() {}
