// Verus unit: content of an RDH row of `view rdh` (C19): the styled row builders (`to_styled_row_view`) and the unstyled
// ones (`Display::fmt`) of Rdh0, Rdh1, Rdh2 and RdhCru, extracted verbatim; the rule `row_rule` replaces every
// format!/format_args!/write! by the ordered list of the values it renders. Obligation: both builders of a type
// render exactly the documented columns, in order, each from the field (or accessor) of that column - hence styled and
// unstyled rows carry the same content.
use vstd::prelude::*;
verus! {

pub enum Leaf { Num(int) }
pub enum L { Nil, Cons(Leaf, Box<L>) }
pub open spec fn app(a: L, b: L) -> L decreases a {
    match a { L::Nil => b, L::Cons(h, t) => L::Cons(h, Box::new(app(*t, b))) }
}
pub open spec fn num(x: int) -> L { L::Cons(Leaf::Num(x), Box::new(L::Nil)) }

/// anything that can be rendered: the ordered list of values it shows
pub trait AsTok { spec fn tok(&self) -> L; }
pub struct Token { pub l: Ghost<L> }
impl AsTok for Token { open spec fn tok(&self) -> L { self.l@ } }
impl AsTok for u8 { open spec fn tok(&self) -> L { num(*self as int) } }
impl AsTok for u16 { open spec fn tok(&self) -> L { num(*self as int) } }
impl AsTok for u32 { open spec fn tok(&self) -> L { num(*self as int) } }
impl AsTok for u64 { open spec fn tok(&self) -> L { num(*self as int) } }
impl<T: AsTok> AsTok for &T { open spec fn tok(&self) -> L { (**self).tok() } }
impl Token {
    pub fn white(self) -> (r: Token) ensures r.l@ == self.l@ { self }
    pub fn bold(self) -> (r: Token) ensures r.l@ == self.l@ { self }
    pub fn bg_rgb<const R: u8, const G: u8, const B: u8>(self) -> (r: Token) ensures r.l@ == self.l@ { self }
}
/// owo_colors on a plain value: the value, coloured
pub trait Colorize: AsTok + Sized {
    fn white(self) -> (r: Token) ensures r.l@ == self.tok();
}
impl Colorize for u8 { #[verifier::external_body] fn white(self) -> (r: Token) { unimplemented!() } }
impl Colorize for u16 { #[verifier::external_body] fn white(self) -> (r: Token) { unimplemented!() } }
impl Colorize for u32 { #[verifier::external_body] fn white(self) -> (r: Token) { unimplemented!() } }
#[verifier::external_body] pub fn tok_nil() -> (r: Token) ensures r.l@ == L::Nil { unimplemented!() }
#[verifier::external_body] pub fn tok_missing() -> (r: Token) ensures r.l@ == L::Nil { unimplemented!() }
#[verifier::external_body] pub fn tok_cons<T: AsTok>(p: &T, rest: Token) -> (r: Token) ensures r.l@ == app(p.tok(), rest.l@) { unimplemented!() }

pub struct FmtErr;
pub mod fmt {
    use vstd::prelude::*;
    use crate::*;
    pub struct Formatter { pub rows: Ghost<Seq<L>> }
    pub type Result = core::result::Result<(), FmtErr>;
}
#[verifier::external_body]
pub fn emit_row(f: &mut fmt::Formatter, row: Token) -> (r: fmt::Result)
    ensures r.is_ok() ==> final(f).rows@ == old(f).rows@.push(row.l@)
{ unimplemented!() }

pub const GREEN: u8 = 99;
pub const BLUE: u8 = 99;

// ---------------------------------------------------------------- Rdh0: header id, header size, FEE id, system id
pub struct FeeId(pub u16);
pub struct Rdh0 { pub header_id: u8, pub header_size: u8, pub fee_id: FeeId, pub priority_bit: u8, pub system_id: u8, pub reserved0: u16 }
impl Rdh0 {
    pub open spec fn row(&self) -> L { app(num(self.header_id as int), app(num(self.header_size as int), app(num(self.fee_id.0 as int), num(self.system_id as int)))) }
//@EXTRACT rdh0_styled

//@EXTRACT rdh0_fmt
}
impl AsTok for Rdh0 { open spec fn tok(&self) -> L { self.row() } }

// ---------------------------------------------------------------- Rdh1: bunch counter (12 bits), orbit
pub struct BcReserved(pub u32);
pub struct Rdh1 { pub bc_reserved0: BcReserved, pub orbit: u32 }
pub uninterp spec fn spec_bc(w: u32) -> u16;   // bits 11:0 (Rdh1::bc: Kani full_rdh_decode)
impl Rdh1 {
    #[verifier::external_body]
    pub fn bc(&self) -> (r: u16) ensures r == spec_bc(self.bc_reserved0.0) { unimplemented!() }
    pub open spec fn row(&self) -> L { app(num(spec_bc(self.bc_reserved0.0) as int), num(self.orbit as int)) }
//@EXTRACT rdh1_styled

//@EXTRACT rdh1_fmt
}
impl AsTok for Rdh1 { open spec fn tok(&self) -> L { self.row() } }

// ---------------------------------------------------------------- Rdh2: trigger type, pages counter, stop bit
pub struct Rdh2 { pub trigger_type: u32, pub pages_counter: u16, pub stop_bit: u8, pub reserved0: u8 }
impl Rdh2 {
    pub open spec fn row(&self) -> L { app(num(self.trigger_type as int), app(num(self.pages_counter as int), num(self.stop_bit as int))) }
//@EXTRACT rdh2_styled

//@EXTRACT rdh2_fmt
}
impl AsTok for Rdh2 { open spec fn tok(&self) -> L { self.row() } }

// ---------------------------------------------------------------- RdhCru: Rdh0, offset, link, packet counter, Rdh1, data format, Rdh2, detector field
pub struct Rdh3 { pub detector_field: u32 }
pub struct DataformatReserved(pub u64);
pub uninterp spec fn spec_data_format(w: u64) -> u8;   // bits 7:0 (RdhCru::data_format: Kani full_rdh_decode)
pub struct RdhCru { pub rdh0: Rdh0, pub offset_new_packet: u16, pub memory_size: u16, pub link_id: u8, pub packet_counter: u8,
    pub rdh1: Rdh1, pub dataformat_reserved0: DataformatReserved, pub rdh2: Rdh2, pub rdh3: Rdh3 }
impl RdhCru {
    #[verifier::external_body]
    pub fn data_format(&self) -> (r: u8) ensures r == spec_data_format(self.dataformat_reserved0.0) { unimplemented!() }
    pub open spec fn row(&self) -> L {
        app(self.rdh0.row(), app(num(self.offset_new_packet as int), app(num(self.link_id as int), app(num(self.packet_counter as int),
            app(self.rdh1.row(), app(num(spec_data_format(self.dataformat_reserved0.0) as int), app(self.rdh2.row(), num(self.rdh3.detector_field as int))))))))
    }
//@EXTRACT rdhcru_styled

//@EXTRACT rdhcru_fmt
}

} // verus!
fn main() {}
