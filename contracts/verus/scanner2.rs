// Verus unit: InputScanner::load_rdh_cru and load_next_rdh_to_filter (extracted verbatim; the `loop` gets
// an invariant inserted by the extraction), verified modularly. This discharges the contract that unit
// v_scanner assumes for load_rdh_cru: on Ok the tracker holds the stream offset of the returned header,
// also when a filter skipped packets; every visited header is counted once; a returned header matches
// the filter and has an accepted offset_to_next.
use vstd::prelude::*;
verus! {

#[derive(PartialEq, Eq, Structural, Clone, Copy)]
pub enum IoErrorKind { InvalidInput, UnexpectedEof, InvalidData, Other }
pub struct IoError { pub k: IoErrorKind }
pub mod std {
    pub use ::core::mem;
    pub mod io {
        pub use crate::IoErrorKind as ErrorKind;
        pub use crate::IoError as Error;
    }
}

pub struct Rdh0;
/// the concrete header type (64 bytes), for code that mentions it by name
pub struct RdhCru { pub b: [u8; 64] }
global layout RdhCru is size == 64, align == 1;
pub struct Sender;
#[derive(Clone, Copy)]
pub struct FilterTarget { pub t: u32 }

/// reader: only its position in the stream matters here
pub struct Reader { pub pos: Ghost<int> }
impl Reader {
    /// BufferedReaderWrapper::seek_relative_offset: on Ok the position moved forward by `offset`
    /// (pipes: unit v_stdin_seek; files: BufReader::seek_relative, assumed)
    #[verifier::external_body]
    pub fn seek_relative_offset(&mut self, offset: i64) -> (r: Result<(), std::io::Error>)
        ensures r.is_ok() ==> final(self).pos@ == old(self).pos@ + offset, r.is_err() ==> final(self).pos == old(self).pos
    { unimplemented!() }
}

pub trait SerdeRdh: Sized {
    /// stream position this header was read from
    spec fn at(&self) -> int;
    fn load(reader: &mut Reader) -> (r: Result<Self, std::io::Error>)
        ensures r matches Ok(h) ==> final(reader).pos@ == old(reader).pos@ + 64 && h.at() == old(reader).pos@;
    fn load_from_rdh0(reader: &mut Reader, rdh0: Rdh0) -> (r: Result<Self, std::io::Error>)
        ensures r matches Ok(h) ==> final(reader).pos@ == old(reader).pos@ + 56 && h.at() == old(reader).pos@ - 8;
}
pub trait RDH: SerdeRdh {
    spec fn s_offset_to_next(&self) -> u16;
    spec fn s_payload_size(&self) -> u16;
    spec fn s_matches(&self, t: FilterTarget) -> bool;
    fn offset_to_next(&self) -> (r: u16) ensures r == self.s_offset_to_next();
    fn payload_size(&self) -> (r: u16) ensures r == self.s_payload_size();
}

#[verifier::external_body]
fn is_rdh_filter_target<T: RDH>(rdh: &T, target: FilterTarget) -> (r: bool) ensures r == rdh.s_matches(target) { unimplemented!() }

/// proved on the real code by Kani full_offset_check
#[verifier::external_body]
fn sanity_check_offset_next<T: RDH>(rdh: &T, current_memory_address: u64, stats_ch: Option<&Sender>) -> (r: Result<(), std::io::Error>)
    ensures r.is_ok() <==> (64 <= rdh.s_offset_to_next() <= 10064)
{ unimplemented!() }

pub struct MemPosTracker { pub memory_address_bytes: u64 }
impl MemPosTracker {
    pub fn current_mem_address(&self) -> (r: u64) ensures r == self.memory_address_bytes { self.memory_address_bytes }
    /// proved on the extracted body in unit v_trackers (and bit-precisely by Kani full_mem_pos_tracker)
    #[verifier::external_body]
    pub fn next(&mut self, rdh_offset: u64) -> (r: i64)
        requires rdh_offset >= 64, rdh_offset <= 0xFFFF
        ensures r == rdh_offset - 64, final(self).memory_address_bytes as int == old(self).memory_address_bytes + rdh_offset
    { unimplemented!() }
}

pub struct Stats { pub filtered: Ghost<int>, pub payload: Ghost<int> }
impl Stats {
    #[verifier::external_body]
    pub fn rdh_filtered(&mut self) ensures final(self).filtered@ == old(self).filtered@ + 1, final(self).payload == old(self).payload { unimplemented!() }
    #[verifier::external_body]
    pub fn add_payload_size(&mut self, sz: u16) ensures final(self).payload@ == old(self).payload@ + sz, final(self).filtered == old(self).filtered { unimplemented!() }
}

pub struct InputScanner {
    pub reader: Reader,
    pub tracker: MemPosTracker,
    pub stats_sender_ch: Option<Sender>,
    pub filter_target: Option<FilterTarget>,
    pub stats: Option<Stats>,
    pub initial_rdh0: Option<Rdh0>,
    pub seen: Ghost<int>,          // headers counted by collect_rdh_seen_stats
    pub initial_reported: Ghost<int>,
    pub base: Ghost<int>,
}

impl InputScanner {
    /// tracker offset == stream position of the next header to read
    pub open spec fn at_header(&self) -> bool {
        self.tracker.memory_address_bytes as int - self.reader.pos@ == self.base@
    }
    pub open spec fn frame_eq(&self, o: &InputScanner) -> bool {
        self.filter_target == o.filter_target && self.base == o.base && self.stats_sender_ch == o.stats_sender_ch
    }

    fn current_mem_pos(&self) -> (r: u64) ensures r == self.tracker.memory_address_bytes { self.tracker.current_mem_address() }

    #[verifier::external_body]
    fn initial_collect_stats<T: RDH>(&mut self, rdh: &T)
        ensures final(self).initial_reported@ == old(self).initial_reported@ + 1, final(self).reader == old(self).reader, final(self).tracker == old(self).tracker,
            final(self).stats == old(self).stats, final(self).seen == old(self).seen, final(self).initial_rdh0 == old(self).initial_rdh0, final(self).frame_eq(old(self))
    { unimplemented!() }

    #[verifier::external_body]
    fn collect_rdh_seen_stats<T: RDH>(&mut self, rdh: &T)
        ensures final(self).seen@ == old(self).seen@ + 1, final(self).reader == old(self).reader, final(self).tracker == old(self).tracker,
            final(self).stats == old(self).stats, final(self).initial_reported == old(self).initial_reported, final(self).initial_rdh0 == old(self).initial_rdh0, final(self).frame_eq(old(self))
    { unimplemented!() }

//@EXTRACT seek_to_next_rdh

//@EXTRACT load_next_rdh_to_filter

//@EXTRACT load_rdh_cru
}

} // verus!
fn main() {}
