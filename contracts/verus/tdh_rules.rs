// Verus unit: state-dependent TDH rule functions, verified modularly against the accessor contracts.
// The accessor contracts (bit slices of the 80-bit word) are proved bit-precisely on the real code by
// the Kani harness full_accessors_tdh; here the accessors are opaque and only their contracts are used.
use vstd::prelude::*;
verus! {

#[verifier::external_body]
pub struct Tdh { _p: [u8; 10] }

impl Tdh {
    pub uninterp spec fn s_continuation(&self) -> u16;
    pub uninterp spec fn s_trigger_bc(&self) -> u16;
    pub uninterp spec fn s_trigger_orbit(&self) -> u32;
    pub uninterp spec fn s_trigger_type(&self) -> u16;
    pub uninterp spec fn s_internal_trigger(&self) -> u16;

    #[verifier::external_body]
    pub fn continuation(&self) -> (r: u16) ensures r == self.s_continuation() { unimplemented!() }
    #[verifier::external_body]
    pub fn trigger_bc(&self) -> (r: u16) ensures r == self.s_trigger_bc() { unimplemented!() }
    #[verifier::external_body]
    pub fn trigger_orbit(&self) -> (r: u32) ensures r == self.s_trigger_orbit() { unimplemented!() }
    #[verifier::external_body]
    pub fn trigger_type(&self) -> (r: u16) ensures r == self.s_trigger_type() { unimplemented!() }
    #[verifier::external_body]
    pub fn internal_trigger(&self) -> (r: u16) ensures r == self.s_internal_trigger() { unimplemented!() }
}

// message text is dropped by the extraction (rule: message expressions -> msg())
#[verifier::external_body]
fn opaque_msg() -> String { String::new() }

pub open spec fn b2i(b: bool) -> int { if b { 1 } else { 0 } }

pub open spec fn cont_violations(tdh: &Tdh, prev: Option<&Tdh>) -> int {
    b2i(tdh.s_continuation() != 1)
    + match prev {
        Some(p) => b2i(tdh.s_trigger_bc() != p.s_trigger_bc())
                 + b2i(tdh.s_trigger_orbit() != p.s_trigger_orbit())
                 + b2i(tdh.s_trigger_type() != p.s_trigger_type()),
        None => 0,
    }
}

// ---- RDH view used by the rule functions: accessors opaque, contracts proved by Kani (full_rdh_decode)
pub struct Rdh1 { pub orbit: u32, pub s_bc: u16 }
impl Rdh1 {
    #[verifier::external_body]
    pub fn bc(&self) -> (r: u16) ensures r == self.s_bc { unimplemented!() }
}
pub struct Rdh2 { pub trigger_type: u32, pub s_pht: bool }
impl Rdh2 {
    #[verifier::external_body]
    pub fn is_pht_trigger(&self) -> (r: bool) ensures r == self.s_pht { unimplemented!() }
}
pub trait RDH {
    spec fn s_rdh1(&self) -> Rdh1;
    spec fn s_rdh2(&self) -> Rdh2;
    spec fn s_pages_counter(&self) -> u16;
    spec fn s_stop_bit(&self) -> u8;
    fn rdh1(&self) -> (r: &Rdh1) ensures *r == self.s_rdh1();
    fn rdh2(&self) -> (r: &Rdh2) ensures *r == self.s_rdh2();
    fn pages_counter(&self) -> (r: u16) ensures r == self.s_pages_counter();
    fn stop_bit(&self) -> (r: u8) ensures r == self.s_stop_bit();
}

pub open spec fn page0_trg<R: RDH>(tdh: &Tdh, rdh: &R) -> bool {
    rdh.s_pages_counter() == 0 && (tdh.s_internal_trigger() == 1 || rdh.s_rdh2().s_pht)
}
pub open spec fn nocont_violations<R: RDH>(tdh: &Tdh, rdh: &R) -> int {
    b2i(tdh.s_continuation() != 0)
    + b2i(tdh.s_trigger_orbit() != rdh.s_rdh1().orbit)
    + if page0_trg(tdh, rdh) {
        b2i(tdh.s_trigger_bc() != rdh.s_rdh1().s_bc)
        + b2i((rdh.s_rdh2().trigger_type as u16 & 0xFFF) != tdh.s_trigger_type())
      } else { 0 }
}

pub struct TdhValidator;
impl TdhValidator {
//@EXTRACT check_continuation

//@EXTRACT check_tdh_no_continuation

//@EXTRACT check_tdh_rdh_bc_trigger_type_match
}

// ---- ITS-specific RDH rules at DDW0 / initial IHW
//@EXTRACT its_rdh_validator_struct

impl<T: RDH> ItsRdhValidator<T> {
//@EXTRACT check_at_ddw0

//@EXTRACT check_at_initial_ihw
}

} // verus!
fn main() {}
