// Verus unit: the loop of the analysis thread (spawn_analysis, statement fragment inside the thread closure,
// extracted verbatim; loop invariants inserted): every batch received from the reader is, in arrival order,
// first counted (trigger types, heartbeat frames) and then handed exactly once to the validator dispatcher (check
// commands) or to the view generator (view commands); when the loop ends the dispatcher's threads are joined.
use vstd::prelude::*;
verus! {

#[derive(PartialEq, Eq, Structural, Clone, Copy)]
pub enum Ordering { SeqCst }
pub struct StopFlag;
impl StopFlag { #[verifier::external_body] pub fn load(&self, o: Ordering) -> (r: bool) { unimplemented!() } }

pub struct Msg;
impl Msg { pub fn into(self) -> Msg { self } }
pub struct ErrBox;
impl ErrBox { #[verifier::external_body] pub fn to_string(&self) -> (r: Msg) { unimplemented!() } }
pub struct SystemId;
pub enum StatType { TriggerType(u32), HBFsSeen(u32), Fatal(Msg) }
pub struct SendErr;
pub struct Sender { pub log: Ghost<Seq<StatType>> }
impl Sender {
    #[verifier::external_body]
    pub fn send(&mut self, x: StatType) -> (r: Result<(), SendErr>)
        ensures r.is_ok(), final(self).log@ == old(self).log@.push(x)
    { unimplemented!() }
}

pub struct Rdh { pub sb: u8, pub tt: u32, pub sys_ok: bool }
impl Rdh {
    pub fn stop_bit(&self) -> (r: u8) ensures r == self.sb { self.sb }
    pub fn trigger_type(&self) -> (r: u32) ensures r == self.tt { self.tt }
}
pub struct Batch { pub rdhs: Vec<Rdh>, pub id: Ghost<int> }
impl Batch {
    pub fn rdh_slice(&self) -> (r: &[Rdh]) ensures r@ == self.rdhs@ { self.rdhs.as_slice() }
}
pub mod stats {
    use vstd::prelude::*;
    #[verifier::external_body]
    pub fn collect_system_specific_stats(rdh: &crate::Rdh, system_id: &mut Option<crate::SystemId>, stats_send: &crate::Sender) -> (r: Result<(), crate::Msg>)
        ensures r.is_ok() == rdh.sys_ok
    { unimplemented!() }
}

pub struct RecvError;
/// channel from the reader thread: the batches still to come, in order; Err when the reader is done and the queue empty
pub struct Receiver { pub queue: Ghost<Seq<int>>, pub taken: Ghost<Seq<int>> }
impl Receiver {
    #[verifier::external_body]
    pub fn recv(&mut self) -> (r: Result<Batch, RecvError>)
        ensures
            (r matches Ok(b) ==> old(self).queue@.len() > 0 && b.id@ == old(self).queue@[0] && b.rdhs@.len() <= 100000
                && final(self).queue@ == old(self).queue@.subrange(1, old(self).queue@.len() as int) && final(self).taken@ == old(self).taken@.push(b.id@)),
            (r is Err ==> final(self).queue == old(self).queue && final(self).taken == old(self).taken),
    { unimplemented!() }
}

pub struct CheckCmd;
#[derive(Clone, Copy)]
pub struct ViewCmd;
pub uninterp spec fn cfg_check() -> bool;
pub uninterp spec fn cfg_view() -> bool;
pub struct Cfg;
impl Cfg {
    #[verifier::external_body] pub fn check(&self) -> (r: Option<CheckCmd>) ensures r.is_some() == cfg_check() { unimplemented!() }
    #[verifier::external_body] pub fn view(&self) -> (r: Option<ViewCmd>) ensures r.is_some() == cfg_view() { unimplemented!() }
}
pub struct ValidatorDispatcher { pub dispatched: Ghost<Seq<int>>, pub joined: Ghost<bool> }
impl ValidatorDispatcher {
    #[verifier::external_body]
    pub fn dispatch_cdp_batch(&mut self, b: Batch)
        ensures final(self).dispatched@ == old(self).dispatched@.push(b.id@), final(self).joined == old(self).joined
    { unimplemented!() }
    #[verifier::external_body]
    pub fn join(&mut self) ensures final(self).joined@, final(self).dispatched == old(self).dispatched { unimplemented!() }
}
pub struct Viewer { pub viewed: Ghost<Seq<int>> }
pub mod view { pub mod lib {
    use vstd::prelude::*;
    use crate::*;
    /// views write to stdout (unit v_view); here only: which batches were shown, in which order
    #[verifier::external_body]
    pub fn generate_view(view: ViewCmd, cdp_array: &Batch) -> (r: Result<(), ErrBox>) { unimplemented!() }
} }

pub open spec fn hbf_count(s: Seq<Rdh>, k: int) -> int decreases k {
    if k <= 0 { 0 } else { hbf_count(s, k - 1) + (if s[k - 1].sb == 1 { 1int } else { 0int }) }
}

fn site_analysis_loop(config: &Cfg, stop_flag: &StopFlag, stats_send: &mut Sender, data_recv: &mut Receiver, validator_dispatcher: &mut ValidatorDispatcher, mut system_id: Option<SystemId>)
    requires old(validator_dispatcher).dispatched@.len() == 0, old(data_recv).taken@.len() == 0, !old(validator_dispatcher).joined@,
    ensures
        final(validator_dispatcher).joined@, // [C04][C14] the validator threads are joined when the loop ends (their statistics are complete before the run ends)
        cfg_check() ==> final(validator_dispatcher).dispatched@ =~= final(data_recv).taken@, // [C14][C01][C02][C06] every batch received is handed to the validators exactly once, in arrival order
        !cfg_check() ==> final(validator_dispatcher).dispatched@.len() == 0, // [C01] without a check command nothing is validated
{
//@EXTRACT analysis_loop
}

} // verus!
impl core::fmt::Debug for SendErr { fn fmt(&self, _f: &mut core::fmt::Formatter<'_>) -> core::fmt::Result { Ok(()) } }
fn main() {}
