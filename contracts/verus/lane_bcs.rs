// Verus unit (C13): its::alpide::validate_lane_bcs (extracted, with struct ValidatedLane) - the cross-lane bunch counter
// comparison that v_frame_lanes leaves uninterpreted (bc_mismatch / bc_mismatch_lanes), for ANY number of validated lanes.
//   * a mismatch is reported iff two validated lanes carry different bunch counters (property: "all chips of all lanes
//     carry the same bunch counter") - whatever the number of lanes, two included;
//   * then exactly one message is appended, and the lane numbers appended are the validated lanes grouped by bunch
//     counter (groups in the order of the distinct counters, lanes in frame order within a group);
//   * without a mismatch nothing is appended; earlier entries of both lists are never touched.
// The iterator-adapter chains of the function are outside Verus; four of them are replaced by named stand-ins with
// their std / itertools meaning (substitutions listed in units.json, a changed chain loses the anchor = inconclusive):
//   map(bunch_counter).collect().into_iter().unique().collect()  -> distinct values, first-appearance order
//   iter().filter(bc == x).map(lane_id).collect()                -> lane ids of the lanes with that counter, in order
//   iter().map(lane_id).collect()   (inside format!, dropped with the message text)
//   ids.extend(groups.iter().flat_map(|(_, lanes)| lanes))       -> appends the concatenation of the groups
use vstd::prelude::*;
use vstd::std_specs::iter::IteratorSpec;
verus! {

pub struct String;
#[verifier::external_body]
pub fn opaque_msg() -> String { unimplemented!() }
pub struct Cfg;
impl Cfg {
    #[verifier::external_body] pub fn global() -> &'static Cfg { unimplemented!() }
    #[verifier::external_body] pub fn mute_errors(&self) -> bool { unimplemented!() }
}
#[verifier::external_body]
fn add_context_to_unique_bc_error_msg(lanes_to_bunch_counter: &[(u8, Vec<u8>)], error_string: &mut String) { unimplemented!() }

//@EXTRACT validated_lane_struct

pub open spec fn bcs(v: Seq<ValidatedLane>) -> Seq<u8> { v.map_values(|l: ValidatedLane| l.bunch_counter) }
/// lane ids of the lanes carrying bunch counter `bc`, in order
pub open spec fn lanes_with(v: Seq<ValidatedLane>, bc: u8) -> Seq<u8> {
    v.filter(|l: ValidatedLane| l.bunch_counter == bc).map_values(|l: ValidatedLane| l.lane_id)
}
/// the property's rule: some two validated lanes disagree
pub open spec fn bc_mismatch(v: Seq<ValidatedLane>) -> bool {
    exists|i: int, j: int| 0 <= i < v.len() && 0 <= j < v.len() && v[i].bunch_counter != v[j].bunch_counter
}
pub open spec fn groups(v: Seq<ValidatedLane>, u: Seq<u8>, n: int) -> Seq<u8> decreases n {
    if n <= 0 { Seq::empty() } else { groups(v, u, n - 1) + lanes_with(v, u[n - 1]) }
}
pub open spec fn is_unique_of(u: Seq<u8>, s: Seq<u8>) -> bool {
    &&& forall|i: int, j: int| 0 <= i < j < u.len() ==> u[i] != u[j]
    &&& forall|i: int| 0 <= i < u.len() ==> s.contains(#[trigger] u[i])
    &&& forall|i: int| 0 <= i < s.len() ==> u.contains(#[trigger] s[i])
}
/// `.iter().map(|lane| lane.bunch_counter).collect::<Vec<u8>>().into_iter().unique().collect()` (itertools::unique)
#[verifier::external_body]
fn unique_bunch_counters_of(validated_lanes: &[ValidatedLane]) -> (r: Vec<u8>)
    ensures is_unique_of(r@, bcs(validated_lanes@))
{ unimplemented!() }
/// `.iter().filter(|lane| lane.bunch_counter == *bunch_counter).map(|lane| lane.lane_id).collect::<Vec<u8>>()`
#[verifier::external_body]
fn lane_ids_with_bc(validated_lanes: &[ValidatedLane], bunch_counter: &u8) -> (r: Vec<u8>)
    ensures r@ == lanes_with(validated_lanes@, *bunch_counter)
{ unimplemented!() }
pub open spec fn flat(g: Seq<(u8, Vec<u8>)>, n: int) -> Seq<u8> decreases n {
    if n <= 0 { Seq::empty() } else { flat(g, n - 1) + g[n - 1].1@ }
}
/// `lane_error_ids.extend(lanes_to_bunch_counter.iter().flat_map(|(_, lanes)| lanes))`
#[verifier::external_body]
fn extend_with_groups(lane_error_ids: &mut Vec<u8>, lanes_to_bunch_counter: &Vec<(u8, Vec<u8>)>)
    ensures final(lane_error_ids)@ == old(lane_error_ids)@ + flat(lanes_to_bunch_counter@, lanes_to_bunch_counter@.len() as int)
{ unimplemented!() }

proof fn lemma_flat_groups(g: Seq<(u8, Vec<u8>)>, v: Seq<ValidatedLane>, u: Seq<u8>, n: int)
    requires 0 <= n <= g.len(), n <= u.len(), forall|k: int| 0 <= k < n ==> (#[trigger] g[k]).1@ == lanes_with(v, u[k])
    ensures flat(g, n) == groups(v, u, n)
    decreases n
{ if n > 0 { lemma_flat_groups(g, v, u, n - 1); } }

proof fn lemma_unique_len(u: Seq<u8>, v: Seq<ValidatedLane>)
    requires is_unique_of(u, bcs(v))
    ensures (u.len() > 1) <==> bc_mismatch(v)
{
    let s = bcs(v);
    if u.len() > 1 {
        assert(s.contains(u[0])); assert(s.contains(u[1]));
        let i = choose|i: int| 0 <= i < s.len() && s[i] == u[0];
        let j = choose|j: int| 0 <= j < s.len() && s[j] == u[1];
        assert(v[i].bunch_counter != v[j].bunch_counter);
    }
    if bc_mismatch(v) {
        let (i, j) = choose|i: int, j: int| 0 <= i < v.len() && 0 <= j < v.len() && v[i].bunch_counter != v[j].bunch_counter;
        assert(u.contains(s[i])); assert(u.contains(s[j]));
        let a = choose|a: int| 0 <= a < u.len() && u[a] == s[i];
        let b = choose|b: int| 0 <= b < u.len() && u[b] == s[j];
        assert(a != b);
    }
}

//@EXTRACT validate_lane_bcs

} // verus!
fn main() {}
