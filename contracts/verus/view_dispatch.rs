// Verus unit (C19): analyze::view::lib::generate_view (extracted): the view produced for a batch is the one the command
// names, on that batch, with the configured styling switch; a failing view is passed on as the error, otherwise Ok.
use vstd::prelude::*;
verus! {

#[derive(PartialEq, Eq, Structural, Clone, Copy)]
pub enum ViewCommands { Rdh, ItsReadoutFrames, ItsReadoutFramesData }
pub struct CdpArray<T, const CAP: usize> { pub id: int, pub t: core::marker::PhantomData<T> }
pub struct ErrBox;
pub mod error { pub trait Error {} }
/// which view ran on which batch with which styling switch, and whether it failed
pub struct Shown { pub v: ViewCommands, pub batch: int, pub plain: bool }
pub uninterp spec fn cfg_plain() -> bool;
pub uninterp spec fn view_fails(v: ViewCommands, batch: int) -> bool;
pub struct Cfg;
impl Cfg {
    #[verifier::external_body] pub fn global() -> &'static Cfg { unimplemented!() }
    #[verifier::external_body] pub fn disable_styled_views(&self) -> (r: bool) ensures r == cfg_plain() { unimplemented!() }
}
pub struct World { pub shown: Ghost<Seq<Shown>> }
pub mod rdh_view_mod {
    use vstd::prelude::*;
    use crate::*;
    #[verifier::external_body]
    pub fn rdh_view<T, const CAP: usize>(world: &mut World, cdp_array: &CdpArray<T, CAP>, disable_styled_view: bool) -> (r: Result<(), ErrBox>)
        ensures final(world).shown@ == old(world).shown@.push(Shown { v: ViewCommands::Rdh, batch: cdp_array.id, plain: disable_styled_view }),
            r is Err == view_fails(ViewCommands::Rdh, cdp_array.id)
    { unimplemented!() }
}
#[verifier::external_body]
pub fn its_readout_frame_view<T, const CAP: usize>(world: &mut World, cdp_array: &CdpArray<T, CAP>, disable_styled_view: bool) -> (r: Result<(), ErrBox>)
    ensures final(world).shown@ == old(world).shown@.push(Shown { v: ViewCommands::ItsReadoutFrames, batch: cdp_array.id, plain: disable_styled_view }),
        r is Err == view_fails(ViewCommands::ItsReadoutFrames, cdp_array.id)
{ unimplemented!() }
#[verifier::external_body]
pub fn its_readout_frame_data_view<T, const CAP: usize>(world: &mut World, cdp_array: &CdpArray<T, CAP>, disable_styled_view: bool) -> (r: Result<(), ErrBox>)
    ensures final(world).shown@ == old(world).shown@.push(Shown { v: ViewCommands::ItsReadoutFramesData, batch: cdp_array.id, plain: disable_styled_view }),
        r is Err == view_fails(ViewCommands::ItsReadoutFramesData, cdp_array.id)
{ unimplemented!() }

//@EXTRACT generate_view

} // verus!
fn main() {}
