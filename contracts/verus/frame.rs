// Verus unit: readout-frame bookkeeping in stave mode (extracted verbatim), verified modularly with NO
// precondition on the protocol state: a data word may arrive when no frame is open, the list of fatal lanes
// may be longer than the barrel has lanes. Also: lane-count rule (3 / 8 / 14 minus fatal lanes).
use vstd::prelude::*;
verus! {

#[derive(PartialEq, Eq, Structural, Clone, Copy)]
pub enum Layer { Inner, Middle, Outer }
#[derive(Clone, Copy)]
pub struct Stave { pub l: Layer }
impl Layer {
    pub fn from_stave(stave: &Stave) -> (r: Layer) ensures r == stave.l { stave.l }
}
pub struct Msg;
#[verifier::external_body]
fn opaque_msg() -> Msg { Msg }
pub struct LaneDataFrame;

pub struct AlpideReadoutFrame {
    pub lane_data_frames: Vec<LaneDataFrame>,
    pub layer: Layer,
    pub stored: Ghost<int>,
}
pub uninterp spec fn ib_grouping_ok(n: nat, fatal: Option<Seq<u8>>) -> bool;

#[verifier::external_body]
pub fn validate_inner_lane_groupings(lane_data_frames: &[LaneDataFrame], fatal_lanes: Option<&[u8]>) -> (r: Result<(), Msg>)
{ unimplemented!() }

impl AlpideReadoutFrame {
    const IL_FRAME_LANE_COUNT: usize = 3;
    const ML_FRAME_LANE_COUNT: usize = 8;
    const OL_FRAME_LANE_COUNT: usize = 14;

    #[verifier::external_body]
    pub fn store_lane_data(&mut self, data_word: &[u8], from_layer: Layer)
        ensures final(self).stored@ == old(self).stored@ + 1
    { unimplemented!() }

    pub fn from_layer(&self) -> (r: Layer) ensures r == self.layer { self.layer }

//@EXTRACT check_frame_lanes_valid
}

pub struct ItsReadoutFrameValidator {
    pub alpide_readout_frame: Option<AlpideReadoutFrame>,
    pub is_readout_frame: bool,
    pub from_stave: Option<Stave>,
}
impl ItsReadoutFrameValidator {
//@EXTRACT rfv_store_lane_data
}

pub open spec fn expected_lanes(l: Layer) -> int {
    match l { Layer::Inner => 3, Layer::Middle => 8, Layer::Outer => 14 }
}

} // verus!
fn main() {}
