// Verus unit: Config::validate_args (extracted verbatim): exactly the documented invalid option combinations are
// rejected - before anything is processed or written (C16). In particular a statistics file to compare against must
// exist and carry exactly the extension `json` or `toml`: these are the only two spellings the later reader of that file
// (Controller::run) accepts - anything else makes it panic after the whole input was processed.
use vstd::prelude::*;
verus! {

/// std::option::Option::is_some_and (not specified in vstd)
pub assume_specification<T, F: FnOnce(T) -> bool>[ Option::<T>::is_some_and ](o: Option<T>, f: F) -> (r: bool)
    where F: core::marker::Destruct
    requires o matches Some(x) ==> f.requires((x,)),
    ensures o is None ==> !r, o matches Some(x) ==> f.ensures((x,), r);

pub struct Msg;
#[verifier::external_body]
fn opaque_msg_shaped(b: bool) -> Msg { unimplemented!() }

#[allow(non_camel_case_types)]
#[derive(PartialEq, Eq, Structural, Clone, Copy)]
pub enum System { ITS, ITS_Stave }
#[derive(Clone, Copy)]
pub struct CheckModeArgs { pub target: Option<System> }
#[derive(Clone, Copy)]
pub enum CheckCommands { Sanity(CheckModeArgs), All(CheckModeArgs) }
impl CheckCommands {
    pub fn target(&self) -> (r: Option<System>)
        ensures r == (match *self { CheckCommands::Sanity(a) => a.target, CheckCommands::All(a) => a.target })
    { match self { CheckCommands::Sanity(a) => a.target, CheckCommands::All(a) => a.target } }
}

/// extension of a path (std::ffi::OsStr): exact and ASCII-case-insensitive comparison with a literal
#[derive(Clone, Copy)]
pub struct OsStr { pub id: Ghost<int> }
pub uninterp spec fn ext_is(e: int, s: Seq<char>) -> bool;          // byte-for-byte equal
pub uninterp spec fn ext_is_nocase(e: int, s: Seq<char>) -> bool;   // equal up to ASCII case
impl PartialEq<&str> for OsStr {
    #[verifier::external_body]
    fn eq(&self, other: &&str) -> (r: bool) ensures r == ext_is(self.id@, (*other)@) { unimplemented!() }
}
impl OsStr {
    #[verifier::external_body]
    pub fn eq_ignore_ascii_case(&self, other: &str) -> (r: bool) ensures r == ext_is_nocase(self.id@, other@) { unimplemented!() }
}
pub struct PathBuf { pub exists: bool, pub ext: Option<OsStr> }
impl PathBuf {
    #[verifier::external_body] pub fn is_file(&self) -> (r: bool) ensures r == self.exists { unimplemented!() }
    /// (the real method returns Option<&OsStr>; here the extension is handed out by value so that the comparison with a literal keeps its specification)
    pub fn extension(&self) -> (r: Option<OsStr>) ensures r == self.ext { self.ext }
    #[verifier::external_body] pub fn to_string_lossy(&self) -> (r: Msg) { unimplemented!() }
}

pub struct Cfg { pub chk: Option<CheckCommands>, pub period: Option<u16>, pub code: Option<u8>, pub stats_in: Option<PathBuf> }
pub open spec fn stave_target(c: Cfg) -> bool { c.chk matches Some(k) && (match k { CheckCommands::Sanity(a) => a.target, CheckCommands::All(a) => a.target }) == Some(System::ITS_Stave) }
/// the documented invalid combinations
pub open spec fn invalid(c: Cfg) -> bool {
    ||| (c.chk matches Some(CheckCommands::Sanity(a)) && a.target == Some(System::ITS_Stave))     // `check sanity its-stave`
    ||| (c.period.is_some() && !stave_target(c))                                                   // trigger period without the its-stave target
    ||| c.code == Some(0u8)                                                                        // any-errors exit code 0
    ||| (c.stats_in matches Some(p) && (!p.exists || p.ext.is_none()
            || !(ext_is(p.ext.unwrap().id@, "json"@) || ext_is(p.ext.unwrap().id@, "toml"@))))      // statistics file missing / without or with another extension
}
impl Cfg {
    pub fn check(&self) -> (r: Option<CheckCommands>) ensures r == self.chk { self.chk }
    pub fn check_its_trigger_period(&self) -> (r: Option<u16>) ensures r == self.period { self.period }
    pub fn any_errors_exit_code(&self) -> (r: Option<u8>) ensures r == self.code { self.code }
    pub fn input_stats_file(&self) -> (r: Option<&PathBuf>) ensures r.is_some() == self.stats_in.is_some(), r matches Some(p) ==> *p == self.stats_in.unwrap() { self.stats_in.as_ref() }

//@EXTRACT validate_args
}

} // verus!
fn main() {}
