// Verus unit: StdInReaderSeeker::seek_relative_offset (extracted verbatim): skipping `offset` bytes on a pipe
// consumes exactly `offset` bytes. `io::stdin().lock().read_exact(..)` is an opaque stand-in whose contract
// says: on Ok exactly buf.len() bytes were consumed (uninterpreted predicate consumed(n)).
use vstd::prelude::*;
verus! {

global size_of usize == 8;

pub uninterp spec fn consumed(n: nat) -> bool;

#[derive(PartialEq, Eq, Structural, Clone, Copy)]
pub enum IoErrorKind { InvalidInput, UnexpectedEof, InvalidData, Other }
pub struct IoError { pub k: IoErrorKind }
pub struct Msg;
#[verifier::external_body]
fn opaque_msg() -> Msg { Msg }
impl IoError {
    pub fn kind(&self) -> (r: IoErrorKind) ensures r == self.k { self.k }
    pub fn new(k: IoErrorKind, _m: Msg) -> (r: IoError) ensures r.k == k { IoError { k } }
}
pub struct Stdin;
pub struct StdinLock;
impl Stdin {
    pub fn lock(&self) -> StdinLock { StdinLock }
}
impl StdinLock {
    #[verifier::external_body]
    pub fn read_exact(&mut self, buf: &mut [u8]) -> (r: Result<(), IoError>)
        ensures r.is_ok() ==> consumed(old(buf)@.len())
    { unimplemented!() }
}
pub mod io {
    pub use crate::IoErrorKind as ErrorKind;
    pub use crate::IoError as Error;
    pub type Result<T> = core::result::Result<T, crate::IoError>;
    pub fn stdin() -> crate::Stdin { crate::Stdin }
}

pub struct StdInReaderSeeker;
impl StdInReaderSeeker {
//@EXTRACT seek_relative_offset
}

} // verus!
fn main() {}
