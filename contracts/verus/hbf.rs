// Verus unit: the per-batch statistics loop of the analysis thread (a statement block extracted verbatim from
// the thread closure in spawn_analysis; loop invariant inserted): for every RDH of the batch, in order, its
// trigger type is reported; then the number of RDHs with stop_bit == 1 (heartbeat frames) is reported once.
use vstd::prelude::*;
verus! {

pub struct Msg;
pub struct SystemId;
pub enum StatType { TriggerType(u32), HBFsSeen(u32), Fatal(Msg) }
pub struct SendErr;
pub struct Sender { pub log: Ghost<Seq<StatType>> }
impl Sender {
    #[verifier::external_body]
    pub fn send(&mut self, x: StatType) -> (r: Result<(), SendErr>)
        ensures r.is_ok(), final(self).log@ == old(self).log@.push(x)
    { unimplemented!() }
}

pub struct Rdh { pub sb: u8, pub tt: u32, pub sys_ok: bool }
impl Rdh {
    pub fn stop_bit(&self) -> (r: u8) ensures r == self.sb { self.sb }
    pub fn trigger_type(&self) -> (r: u32) ensures r == self.tt { self.tt }
}
pub struct Batch { pub rdhs: Vec<Rdh> }
impl Batch {
    pub fn rdh_slice(&self) -> (r: &[Rdh]) ensures r@ == self.rdhs@ { self.rdhs.as_slice() }
}
pub mod stats {
    use vstd::prelude::*;
    /// system specific statistics (layer/stave): Kani full_collect_system_stats; an unknown system id is an error
    #[verifier::external_body]
    pub fn collect_system_specific_stats(rdh: &crate::Rdh, system_id: &mut Option<crate::SystemId>, stats_send: &crate::Sender) -> (r: Result<(), crate::Msg>)
        ensures r.is_ok() == rdh.sys_ok
    { unimplemented!() }
}
impl Msg { pub fn into(self) -> Msg { self } }

pub open spec fn hbf_count(s: Seq<Rdh>, k: int) -> int
    decreases k
{
    if k <= 0 { 0 } else { hbf_count(s, k - 1) + (if s[k - 1].sb == 1 { 1int } else { 0int }) }
}

fn batch_stats(cdp_batch: &Batch, stats_send_in: Sender, system_id_in: Option<SystemId>) -> (out: Sender)
    requires cdp_batch.rdhs@.len() <= 100000,
        forall|i: int| 0 <= i < cdp_batch.rdhs@.len() ==> cdp_batch.rdhs@[i].sys_ok,
    ensures
        out.log@.len() == stats_send_in.log@.len() + cdp_batch.rdhs@.len() + 1,
        forall|i: int| 0 <= i < cdp_batch.rdhs@.len() ==> ((#[trigger] out.log@[stats_send_in.log@.len() + i]) matches StatType::TriggerType(t) && t == cdp_batch.rdhs@[i].tt),
        (out.log@.last() matches StatType::HBFsSeen(n) && n == hbf_count(cdp_batch.rdhs@, cdp_batch.rdhs@.len() as int)),
{
    let mut stats_send = stats_send_in;
    let mut system_id = system_id_in;
    let ghost l0 = stats_send.log@;
    let ghost s = cdp_batch.rdhs@;
//@EXTRACT hbf_block
    stats_send
}

} // verus!
impl core::fmt::Debug for SendErr { fn fmt(&self, _f: &mut core::fmt::Formatter<'_>) -> core::fmt::Result { Ok(()) } }
fn main() {}
