// Verus unit (C12): its::lib::do_payload_checks (extracted) for payloads of ANY length (the Kani harnesses
// bnd40_/bnd64_do_payload_checks_* cover the real types up to 40 / 64 bytes).
//   * the header and offset of the packet are handed to the validator before any word;
//   * when the payload can be cut into word slots every slot's first 10 bytes are handed to the validator exactly
//     once, in order, and nothing is reported here;
//   * otherwise exactly one message led by the packet's offset is sent, no word is examined and the word-sequence
//     state machine is reset.
use vstd::prelude::*;
verus! {

pub struct Rdh { pub id: int }
pub struct Msg { pub sortable: bool, pub lead: u64 }
#[verifier::external_body]
pub fn opaque_msg_at(b: bool, lead: u64) -> (r: Msg) ensures r.sortable == b, r.lead == lead { unimplemented!() }
impl Msg {
    #[verifier::external_body]
    pub fn into(self) -> (r: Msg) ensures r == self { unimplemented!() }
}
pub enum StatType { Error(Msg) }
pub mod flume {
    use vstd::prelude::*;
    use crate::*;
    pub struct SendError<T> { pub t: T }
    /// channel to the statistics collector: ghost log of the messages accepted
    pub struct Sender<T> { pub sent: Ghost<Seq<T>> }
    impl<T> Sender<T> {
        #[verifier::external_body]
        pub fn send(&mut self, x: T) -> (r: Result<(), SendError<T>>)
            ensures r is Ok ==> final(self).sent@ == old(self).sent@.push(x), r is Err ==> final(self).sent == old(self).sent
        { unimplemented!() }
    }
}
pub struct ErrBox;

/// payload -> word slots (preprocess_payload: Kani full_chunkify, bnd40_preprocess*, bnd96_*)
pub uninterp spec fn chunks_of(payload: Seq<u8>) -> Seq<Seq<u8>>;
pub uninterp spec fn chunkable(payload: Seq<u8>) -> bool;
pub struct Chunks<'a> { pub slices: Ghost<Seq<&'a [u8]>>, pub pos: Ghost<int> }
impl<'a> Iterator for Chunks<'a> {
    type Item = &'a [u8];
    #[verifier::external_body]
    fn next(&mut self) -> (r: Option<&'a [u8]>) { unimplemented!() }
}
impl<'a> vstd::std_specs::iter::IteratorSpecImpl for Chunks<'a> {
    open spec fn obeys_prophetic_iter_laws(&self) -> bool { true }
    open spec fn remaining(&self) -> Seq<&'a [u8]> { self.slices@.subrange(self.pos@, self.slices@.len() as int) }
    open spec fn will_return_none(&self) -> bool { true }
    open spec fn peek(&self, index: int) -> Option<&'a [u8]> {
        if 0 <= index < self.slices@.len() - self.pos@ { Some(self.slices@[self.pos@ + index]) } else { None }
    }
    open spec fn decrease(&self) -> Option<nat> { Some((self.slices@.len() - self.pos@) as nat) }
}
pub open spec fn chunks_match(slices: Seq<&[u8]>, payload: Seq<u8>) -> bool {
    slices.len() == chunks_of(payload).len()
    && forall|i: int| 0 <= i < slices.len() ==> (#[trigger] slices[i])@ == chunks_of(payload)[i] && slices[i]@.len() >= 10
}
#[verifier::external_body]
pub fn preprocess_payload<'a>(payload: &'a [u8]) -> (r: Result<Chunks<'a>, ErrBox>)
    ensures r is Ok <==> chunkable(payload@), r matches Ok(c) ==> chunks_match(c.slices@, payload@) && c.pos@ == 0
{ unimplemented!() }

/// the ITS payload validator: ghost trace of what it is given
pub struct CdpRunningValidator { pub rdh_set: Ghost<Seq<(int, u64)>>, pub checked: Ghost<Seq<Seq<u8>>>, pub resets: Ghost<nat> }
impl CdpRunningValidator {
    #[verifier::external_body]
    pub fn set_current_rdh(&mut self, rdh: &Rdh, rdh_mem_pos: u64)
        ensures final(self).rdh_set@ == old(self).rdh_set@.push((rdh.id, rdh_mem_pos)), final(self).checked == old(self).checked, final(self).resets == old(self).resets
    { unimplemented!() }
    #[verifier::external_body]
    pub fn check(&mut self, gbt_word: &[u8])
        requires gbt_word@.len() == 10
        ensures final(self).checked@ == old(self).checked@.push(gbt_word@), final(self).rdh_set == old(self).rdh_set, final(self).resets == old(self).resets
    { unimplemented!() }
    #[verifier::external_body]
    pub fn reset_fsm(&mut self)
        ensures final(self).resets@ == old(self).resets@ + 1, final(self).checked == old(self).checked, final(self).rdh_set == old(self).rdh_set
    { unimplemented!() }
}
/// the first 10 bytes of the first n slots
pub open spec fn words(ch: Seq<Seq<u8>>, n: int) -> Seq<Seq<u8>> decreases n {
    if n <= 0 { Seq::empty() } else { words(ch, n - 1).push(ch[n - 1].subrange(0, 10)) }
}

//@EXTRACT do_payload_checks

} // verus!
fn main() {}
