// Verus unit (C05): the collected result does not depend on the arrival order of statistics messages.
//  (1) ErrorStats::finalize_stats (extracted verbatim) always sorts the error list (also when muted), and does so
//      before anything is derived from it (staves with errors, distinct error codes);
//  (2) sorting by a total order is canonical: any two arrival orders (same multiset) give the same list;
//  (3) counters accumulated by a commutative step are permutation invariant.
// The per-kind accumulation steps (trigger counters, ALPIDE statistics, numeric counters) are proved
// commutative on the real code by the Kani harnesses full_trigger_stats_collect, full_alpide_stats_sum,
// full_collector_commute.
use vstd::prelude::*;
use vstd::seq_lib::*;
use vstd::relations::*;
verus! {

// ---------------------------------------------------------------- (1) finalize always sorts
pub struct ErrorStats {
    pub sorted: Ghost<bool>,
    pub stave_ids_checked: Ghost<bool>,
    pub codes_done: Ghost<bool>,
}
impl ErrorStats {
    #[verifier::external_body]
    fn sort_error_msgs_by_mem_pos(&mut self)
        ensures final(self).sorted@, final(self).stave_ids_checked == old(self).stave_ids_checked, final(self).codes_done == old(self).codes_done
    { unimplemented!() }
    #[verifier::external_body]
    fn check_errors_for_stave_id(&mut self, layer_staves_seen: &[(u8, u8)])
        requires old(self).sorted@, // [C05] the list of staves with errors is built by walking the error list: it must be the sorted (canonical) list, not the arrival order
        ensures final(self).stave_ids_checked@, final(self).sorted == old(self).sorted, final(self).codes_done == old(self).codes_done
    { unimplemented!() }
    #[verifier::external_body]
    fn process_unique_error_codes(&mut self)
        requires old(self).sorted@, // [C05] the distinct error codes are collected in order of first appearance: in the sorted (canonical) list
        ensures final(self).codes_done@, final(self).sorted == old(self).sorted, final(self).stave_ids_checked == old(self).stave_ids_checked
    { unimplemented!() }

//@EXTRACT finalize_stats
}

// ---------------------------------------------------------------- (2) canonical order
// a message is (offset, text rank): the sort key of sort_error_msgs_by_mem_pos is the leading offset with
// ties broken by the message text (any total order on texts; identical messages are indistinguishable)
pub open spec fn msg_leq(a: (int, int), b: (int, int)) -> bool {
    a.0 < b.0 || (a.0 == b.0 && a.1 <= b.1)
}

pub proof fn lemma_msg_leq_total()
    ensures total_ordering(|a: (int, int), b: (int, int)| msg_leq(a, b))
{
    let leq = |a: (int, int), b: (int, int)| msg_leq(a, b);
    assert(reflexive(leq));
    assert(antisymmetric(leq)) by {
        assert forall|x: (int, int), y: (int, int)| #[trigger] leq(x, y) && #[trigger] leq(y, x) implies x == y by {}
    }
    assert(transitive(leq));
    assert(strongly_connected(leq));
}

/// std's slice sort postcondition (assumed): the output is sorted by the comparator and a permutation of the input.
pub open spec fn is_sort_of(out: Seq<(int, int)>, inp: Seq<(int, int)>) -> bool {
    sorted_by(out, |a: (int, int), b: (int, int)| msg_leq(a, b)) && out.to_multiset() == inp.to_multiset()
}

/// Any two arrival orders of the same messages yield the same final error list.
pub proof fn lemma_sorted_errors_schedule_independent(arrival1: Seq<(int, int)>, arrival2: Seq<(int, int)>, out1: Seq<(int, int)>, out2: Seq<(int, int)>)
    requires
        arrival1.to_multiset() == arrival2.to_multiset(),
        is_sort_of(out1, arrival1),
        is_sort_of(out2, arrival2),
    ensures out1 == out2
{
    lemma_msg_leq_total();
    lemma_sorted_unique(out1, out2, |a: (int, int), b: (int, int)| msg_leq(a, b));
}

// ---------------------------------------------------------------- (3) commutative accumulation
/// Counters (RDHs seen, payload bytes, HBFs, per-bit trigger counts, ALPIDE flags) are sums of the received
/// increments: the total is the same for every arrival order.
pub proof fn lemma_counter_schedule_independent(arrival1: Seq<int>, arrival2: Seq<int>)
    requires arrival1.to_multiset() == arrival2.to_multiset()
    ensures arrival1.fold_right(|x: int, acc: int| x + acc, 0int) == arrival2.fold_right(|x: int, acc: int| x + acc, 0int)
{
    let f = |x: int, acc: int| x + acc;
    assert(commutative_foldr(f));
    lemma_fold_right_permutation(arrival1, arrival2, f, 0int);
}

} // verus!
fn main() {}
