// Verus unit (C08): BufferedWriter (fastpasta/src/write/writer.rs) - struct, push_cdp_arr, push_cdp_vec, flush and
// Drop::drop extracted verbatim (trait-impl methods placed in an inherent impl: Verus takes no `requires` on trait impls).
//   stream(w) = bytes already handed to the sink ++ bytes of the buffered (header, payload) pairs, in order.
//   * push_cdp_arr / push_cdp_vec append exactly the pushed packets' bytes (header bytes then payload, packet by
//     packet, in batch order) to stream(w), whatever the buffer limit and whether or not a flush happens in between;
//   * flush hands exactly the buffered bytes to the sink, once, and empties both buffers;
//   * drop leaves nothing buffered: the sink has received stream(w).
// Hence the sink receives, byte for byte, the concatenation in arrival order of the packets pushed - none lost,
// duplicated, reordered or altered (the header bytes are `to_byte_slice`, inverse of the parser: Kani full_rdh_roundtrip).
use vstd::prelude::*;
verus! {

// ---- header stand-in (generic T: RDH in the code)
pub struct Rdh { pub id: int }
impl Rdh {
    pub uninterp spec fn bytes(&self) -> Seq<u8>;
    #[verifier::external_body]
    pub fn to_byte_slice(&self) -> (r: &[u8]) ensures r@ == self.bytes() { unimplemented!() }
}

// ---- Vec stand-in (std Vec's `iter().zip(..)` is outside vstd): a growable sequence
pub struct Buf<E> { pub items: Vec<E> }
impl<E> Buf<E> {
    pub open spec fn view(&self) -> Seq<E> { self.items@ }
    #[verifier::external_body]
    pub fn len(&self) -> (r: usize) ensures r == self@.len() { unimplemented!() }
    #[verifier::external_body]
    pub fn push(&mut self, e: E) ensures final(self)@ == old(self)@.push(e) { unimplemented!() }
    #[verifier::external_body]
    pub fn clear(&mut self) ensures final(self)@.len() == 0 { unimplemented!() }
    #[verifier::external_body]
    pub fn iter<'a>(&'a self) -> (r: BufIter<'a, E>) ensures r.items@ == self@, r.pos@ == 0 { unimplemented!() }
}
pub struct BufIter<'a, E> { pub items: Ghost<Seq<E>>, pub pos: Ghost<int>, pub p: core::marker::PhantomData<&'a E> }
impl<'a, E> BufIter<'a, E> {
    /// pairs up to the shorter of the two
    #[verifier::external_body]
    pub fn zip<F>(self, other: BufIter<'a, F>) -> (r: ZipIter<'a, E, F>)
        requires self.pos@ == 0, other.pos@ == 0,
        ensures r.a@ == self.items@, r.b@ == other.items@, r.pos@ == 0
    { unimplemented!() }
}
pub struct ZipIter<'a, E, F> { pub a: Ghost<Seq<E>>, pub b: Ghost<Seq<F>>, pub pos: Ghost<int>, pub p: core::marker::PhantomData<(&'a E, &'a F)> }
impl<'a, E, F> ZipIter<'a, E, F> {
    pub open spec fn n(&self) -> int { if self.a@.len() <= self.b@.len() { self.a@.len() as int } else { self.b@.len() as int } }
}
impl<'a, E, F> Iterator for ZipIter<'a, E, F> {
    type Item = (&'a E, &'a F);
    #[verifier::external_body]
    fn next(&mut self) -> (r: Option<(&'a E, &'a F)>) { unimplemented!() }
}
impl<'a, E, F> vstd::std_specs::iter::IteratorSpecImpl for ZipIter<'a, E, F> {
    open spec fn obeys_prophetic_iter_laws(&self) -> bool { true }
    open spec fn remaining(&self) -> Seq<(&'a E, &'a F)> { Seq::new((self.n() - self.pos@) as nat, |i: int| (&self.a@[self.pos@ + i], &self.b@[self.pos@ + i])) }
    open spec fn will_return_none(&self) -> bool { true }
    open spec fn peek(&self, index: int) -> Option<(&'a E, &'a F)> {
        if 0 <= index < self.n() - self.pos@ { Some((&self.a@[self.pos@ + index], &self.b@[self.pos@ + index])) } else { None }
    }
    open spec fn decrease(&self) -> Option<nat> { Some((self.n() - self.pos@) as nat) }
}

// ---- byte accumulator stand-in for `let mut data = vec![]` + `data.extend(..)` (Extend over IntoIterator is outside vstd)
pub trait AsBytes { spec fn bytes_of(&self) -> Seq<u8>; }
impl AsBytes for &[u8] { open spec fn bytes_of(&self) -> Seq<u8> { self@ } }
impl AsBytes for &Vec<u8> { open spec fn bytes_of(&self) -> Seq<u8> { self@ } }
pub struct Bytes { pub v: Ghost<Seq<u8>> }
impl Bytes {
    #[verifier::external_body]
    pub fn new() -> (r: Bytes) ensures r.v@.len() == 0 { unimplemented!() }
    #[verifier::external_body]
    pub fn extend<S: AsBytes>(&mut self, s: S) ensures final(self).v@ == old(self).v@ + s.bytes_of() { unimplemented!() }
}

// ---- batches (alice_protocol_reader CdpArray / CdpVec: arrayvec / Vec of (header, payload, offset); not verified here)
pub type Cdp = (Rdh, Vec<u8>, u64);
pub struct CdpArray<const CAP: usize> { pub items: Ghost<Seq<Cdp>> }
pub struct CdpVec { pub items: Ghost<Seq<Cdp>> }
pub struct CdpIntoIter { pub items: Ghost<Seq<Cdp>>, pub pos: Ghost<int> }
impl<const CAP: usize> CdpArray<CAP> {
    #[verifier::external_body]
    pub fn len(&self) -> (r: usize) ensures r == self.items@.len() { unimplemented!() }
    #[verifier::external_body]
    pub fn into_iter(self) -> (r: CdpIntoIter) ensures r.items == self.items, r.pos@ == 0 { unimplemented!() }
}
impl CdpVec {
    #[verifier::external_body]
    pub fn len(&self) -> (r: usize) ensures r == self.items@.len() { unimplemented!() }
    #[verifier::external_body]
    pub fn into_iter(self) -> (r: CdpIntoIter) ensures r.items == self.items, r.pos@ == 0 { unimplemented!() }
}
impl Iterator for CdpIntoIter {
    type Item = Cdp;
    #[verifier::external_body]
    fn next(&mut self) -> (r: Option<Cdp>) { unimplemented!() }
}
impl vstd::std_specs::iter::IteratorSpecImpl for CdpIntoIter {
    open spec fn obeys_prophetic_iter_laws(&self) -> bool { true }
    open spec fn remaining(&self) -> Seq<Cdp> { self.items@.subrange(self.pos@, self.items@.len() as int) }
    open spec fn will_return_none(&self) -> bool { true }
    open spec fn peek(&self, index: int) -> Option<Cdp> {
        if 0 <= index < self.items@.len() - self.pos@ { Some(self.items@[self.pos@ + index]) } else { None }
    }
    open spec fn decrease(&self) -> Option<nat> { Some((self.items@.len() - self.pos@) as nat) }
}

// ---- sink stand-ins
pub mod io {
    use vstd::prelude::*;
    pub struct Error;
    pub type Result<T> = core::result::Result<T, Error>;
    pub struct BufWriter<F> { pub f: F }
}
pub mod fs { pub struct File; }
pub mod mem {
    use vstd::prelude::*;
    /// BufferedWriter owns vectors and implements Drop: dropping it matters (core::mem::needs_drop is then true)
    #[verifier::external_body]
    pub fn needs_drop<X>() -> (r: bool) ensures r { unimplemented!() }
    /// std::mem::take on a byte accumulator: returns it and leaves an empty one behind
    #[verifier::external_body]
    pub fn take(b: &mut super::Bytes) -> (r: super::Bytes) ensures r.v@ == old(b).v@, final(b).v@.len() == 0 { unimplemented!() }
}

// ---- expected bytes (from the property statement: per packet the header bytes then the payload, in order)
pub open spec fn pairs_bytes(rdhs: Seq<Rdh>, pays: Seq<Vec<u8>>, n: int) -> Seq<u8> decreases n {
    if n <= 0 { Seq::empty() } else { pairs_bytes(rdhs, pays, n - 1) + rdhs[n - 1].bytes() + pays[n - 1]@ }
}
pub open spec fn cdps_bytes(c: Seq<Cdp>, n: int) -> Seq<u8> decreases n {
    if n <= 0 { Seq::empty() } else { cdps_bytes(c, n - 1) + c[n - 1].0.bytes() + c[n - 1].1@ }
}

//@EXTRACT writer_struct

impl BufferedWriter {
    /// header and payload buffers are filled pairwise
    pub open spec fn wf(&self) -> bool { self.filtered_rdhs_buffer@.len() == self.filtered_payload_buffers@.len() }
    pub open spec fn pending(&self) -> Seq<u8> { pairs_bytes(self.filtered_rdhs_buffer@, self.filtered_payload_buffers@, self.filtered_rdhs_buffer@.len() as int) }
    pub open spec fn stream(&self) -> Seq<u8> { self.out@ + self.pending() }

    /// `Writer::write`: hands the bytes to the file's BufWriter or to stdout (std::io, not verified): on success the
    /// sink has received exactly these bytes after everything before; it succeeds unless the OS reports an error.
    #[verifier::external_body]
    fn write(&mut self, data: &Bytes) -> (r: io::Result<()>)
        ensures
            old(self).sink_ok@ ==> r is Ok,
            r is Ok ==> final(self).out@ == old(self).out@ + data.v@,
            final(self).filtered_rdhs_buffer == old(self).filtered_rdhs_buffer, final(self).filtered_payload_buffers == old(self).filtered_payload_buffers,
            final(self).max_buffer_size == old(self).max_buffer_size, final(self).sink_ok == old(self).sink_ok,
    { unimplemented!() }

//@EXTRACT push_cdp_vec

//@EXTRACT push_cdp_arr

//@EXTRACT flush

//@EXTRACT drop_fn
}

pub proof fn lemma_pairs_push(rdhs: Seq<Rdh>, pays: Seq<Vec<u8>>, r: Rdh, p: Vec<u8>)
    requires rdhs.len() == pays.len()
    ensures pairs_bytes(rdhs.push(r), pays.push(p), rdhs.len() as int + 1) == pairs_bytes(rdhs, pays, rdhs.len() as int) + r.bytes() + p@
{
    lemma_pairs_prefix(rdhs, pays, rdhs.push(r), pays.push(p), rdhs.len() as int);
}
pub proof fn lemma_pairs_prefix(r1: Seq<Rdh>, p1: Seq<Vec<u8>>, r2: Seq<Rdh>, p2: Seq<Vec<u8>>, n: int)
    requires 0 <= n <= r1.len(), n <= p1.len(), n <= r2.len(), n <= p2.len(),
        forall|i: int| 0 <= i < n ==> r1[i] == r2[i] && p1[i] == p2[i],
    ensures pairs_bytes(r1, p1, n) == pairs_bytes(r2, p2, n)
    decreases n
{
    if n > 0 { lemma_pairs_prefix(r1, p1, r2, p2, n - 1); }
}

} // verus!
impl core::fmt::Debug for io::Error { fn fmt(&self, _f: &mut core::fmt::Formatter<'_>) -> core::fmt::Result { Ok(()) } }
fn main() {}
