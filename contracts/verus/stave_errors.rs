// Verus unit (C04, C14): ErrorStats::check_errors_for_stave_id (extracted): building the list of staves with errors
// from the collected error messages never panics - whatever layers / staves were recorded as seen, i.e. also for data
// whose system id is not consistently ITS - and lists a stave iff some message names a FEE id of that stave.
use vstd::prelude::*;
verus! {

type LayerStave = (u8, u8);

// ---- regex stand-in: pattern `FEE(?:.|)ID:(?P<fee_id>[1-9][0-9]{0,4})`
pub struct Regex;
pub struct Captures { pub fee: Ghost<u16> }
pub struct ReErr;
pub uninterp spec fn names_fee(m: BoxStr) -> Option<u16>;   // the FEE id a message names, if any (messages render a u16: `FEE ID:{feeid}`)
impl Regex {
    #[verifier::external_body]
    pub fn new(p: &str) -> (r: Result<Regex, ReErr>) ensures r is Ok { unimplemented!() }
    #[verifier::external_body]
    pub fn captures(&self, e: &BoxStr) -> (r: Option<Captures>)
        ensures r is Some == names_fee(*e) is Some, r matches Some(c) ==> c.fee@ == names_fee(*e).unwrap()
    { unimplemented!() }
}
pub mod regex { pub use crate::Captures; }
pub struct Digits { pub v: Ghost<u16> }
impl core::ops::Index<&str> for Captures {
    type Output = Digits;
    #[verifier::external_body]
    fn index(&self, n: &str) -> (r: &Digits) ensures r.v@ == self.fee@ { unimplemented!() }
}
impl vstd::std_specs::core::IndexSpecImpl<&str> for Captures {
    open spec fn index_req(&self, n: &&str) -> bool { true }
}
pub struct ParseErr;
impl Digits {
    /// the captured digits were rendered from a u16 (every `FEE ID:{..}` in the code formats `rdh.fee_id()`): they parse back
    #[verifier::external_body]
    pub fn parse<T>(&self) -> (r: Result<u16, ParseErr>) ensures r matches Ok(v) && v == self.v@ { unimplemented!() }
}
pub uninterp spec fn layer_of(fee: u16) -> u8;
pub uninterp spec fn stave_of(fee: u16) -> u8;
#[verifier::external_body]
pub fn layer_from_feeid(fee_id: u16) -> (r: u8) ensures r == layer_of(fee_id) { unimplemented!() }
#[verifier::external_body]
pub fn stave_number_from_feeid(fee_id: u16) -> (r: u8) ensures r == stave_of(fee_id) { unimplemented!() }

// ---- containers (std's `iter().find(..)` / `for_each` are outside vstd)
pub struct BoxStr { pub id: int }
pub struct Msgs { pub v: Vec<BoxStr> }
pub struct MsgIter<'a> { pub items: Ghost<Seq<BoxStr>>, pub pos: Ghost<int>, pub p: core::marker::PhantomData<&'a BoxStr> }
impl Msgs {
    #[verifier::external_body]
    pub fn iter<'a>(&'a self) -> (r: MsgIter<'a>) ensures r.items@ == self.v@, r.pos@ == 0 { unimplemented!() }
}
impl<'a> Iterator for MsgIter<'a> {
    type Item = &'a BoxStr;
    #[verifier::external_body]
    fn next(&mut self) -> (r: Option<&'a BoxStr>) { unimplemented!() }
}
impl<'a> vstd::std_specs::iter::IteratorSpecImpl for MsgIter<'a> {
    open spec fn obeys_prophetic_iter_laws(&self) -> bool { true }
    open spec fn remaining(&self) -> Seq<&'a BoxStr> { Seq::new((self.items@.len() - self.pos@) as nat, |i: int| &self.items@[self.pos@ + i]) }
    open spec fn will_return_none(&self) -> bool { true }
    open spec fn peek(&self, index: int) -> Option<&'a BoxStr> { if 0 <= index < self.items@.len() - self.pos@ { Some(&self.items@[self.pos@ + index]) } else { None } }
    open spec fn decrease(&self) -> Option<nat> { Some((self.items@.len() - self.pos@) as nat) }
}
pub struct Pairs { pub v: Vec<LayerStave> }
pub struct PairIter<'a> { pub s: &'a Pairs }
impl Pairs {
    #[verifier::external_body]
    pub fn iter<'a>(&'a self) -> (r: PairIter<'a>) ensures r.s == self { unimplemented!() }
}
impl<'a> PairIter<'a> {
    /// first element satisfying the predicate
    #[verifier::external_body]
    pub fn find<F: Fn(&&'a LayerStave) -> bool>(self, f: F) -> (r: Option<&'a LayerStave>)
        requires forall|i: int| 0 <= i < self.s.v@.len() ==> f.requires((&&self.s.v@[i],)),
        ensures
            r matches Some(x) ==> self.s.v@.contains(*x) && f.ensures((&x,), true),
            r is None ==> forall|i: int| 0 <= i < self.s.v@.len() ==> f.ensures((&&self.s.v@[i],), false),
    { unimplemented!() }
}
/// std: Option<&T>::copied, Vec::contains (used at (u8, u8), where `==` is equality of values)
pub assume_specification<T: Copy>[ Option::<&T>::copied ](o: Option<&T>) -> (r: Option<T>)
    ensures o is None ==> r is None, o matches Some(x) ==> r == Some(*x);
pub assume_specification<T: PartialEq>[ <[T]>::contains ](s: &[T], x: &T) -> (r: bool) ensures r == s@.contains(*x);

pub struct ErrorStats {
    pub reported_errors: Msgs,
    pub staves_with_errors: Option<Vec<LayerStave>>,
}
/// the staves named by the first n messages, in order of first appearance
pub open spec fn named(m: Seq<BoxStr>, n: int) -> Seq<LayerStave> decreases n {
    if n <= 0 { Seq::empty() } else {
        let prev = named(m, n - 1);
        match names_fee(m[n - 1]) {
            Some(f) => if prev.contains((layer_of(f), stave_of(f))) { prev } else { prev.push((layer_of(f), stave_of(f))) },
            None => prev,
        }
    }
}
impl ErrorStats {
//@EXTRACT check_errors_for_stave_id
}

} // verus!
impl core::fmt::Debug for ReErr { fn fmt(&self, _f: &mut core::fmt::Formatter<'_>) -> core::fmt::Result { Ok(()) } }
impl core::fmt::Debug for ParseErr { fn fmt(&self, _f: &mut core::fmt::Formatter<'_>) -> core::fmt::Result { Ok(()) } }
fn main() {}
