// Verus unit: offset trackers (extracted verbatim from /repo each run) + offset-chain lemma
use vstd::prelude::*;
verus! {

//@EXTRACT mem_pos_tracker_struct

impl MemPosTracker {
    //@EXTRACT rdh_size_const
//@EXTRACT mpt_new
//@EXTRACT mpt_next
//@EXTRACT mpt_current
//@EXTRACT mpt_update
}

//@EXTRACT cdp_tracker_struct

impl CdpTracker {
//@EXTRACT ct_start_of_data
//@EXTRACT ct_set_data_seen
//@EXTRACT ct_incr_word_count
}


// ---------------------------------------------------------------- offset chain (C03)
// Spec of the scanner's offset bookkeeping: the k-th visited header starts at the sum of the
// offset_to_next fields of the headers visited before it, whether a packet is loaded
// (update_mem_address) or skipped by a filter (next): both add offset_to_next.
pub open spec fn chain(offs: Seq<int>, k: int) -> int
    decreases k
{
    if k <= 0 { 0 } else { chain(offs, k - 1) + offs[k - 1] }
}

// batch-size independence: splitting the packet sequence at any point gives the same offsets
pub proof fn lemma_chain_split(offs: Seq<int>, i: int, j: int)
    requires 0 <= i <= j <= offs.len()
    ensures chain(offs, j) == chain(offs, i) + chain(offs.subrange(i, offs.len() as int), j - i)
    decreases j - i
{
    if j == i {
    } else {
        lemma_chain_split(offs, i, j - 1);
        assert(offs.subrange(i, offs.len() as int)[j - i - 1] == offs[j - 1]);
    }
}

// a run of tracker updates realises the chain: executable check over a vector of offsets
fn run_tracker(offs: &Vec<u16>) -> (t: MemPosTracker)
    requires offs.len() < 0x1_0000_0000,
        forall|i: int| 0 <= i < offs.len() ==> offs[i] >= 64,
    ensures t.memory_address_bytes as int == chain(offs@.map(|i: int, x: u16| x as int), offs.len() as int)
{
    let mut t = MemPosTracker::new();
    let mut k: usize = 0;
    let ghost s = offs@.map(|i: int, x: u16| x as int);
    while k < offs.len()
        invariant
            k <= offs.len(),
            offs.len() < 0x1_0000_0000,
            s == offs@.map(|i: int, x: u16| x as int),
            forall|i: int| 0 <= i < offs.len() ==> offs[i] >= 64,
            t.memory_address_bytes as int == chain(s, k as int),
            t.memory_address_bytes <= k * 65535,
            t.rdh_cru_size_bytes == 64,
        decreases offs.len() - k
    {
        let o = offs[k];
        assert(s[k as int] == o as int);
        assert(t.memory_address_bytes + 65535 <= (k + 1) * 65535) by (nonlinear_arith)
            requires t.memory_address_bytes <= k * 65535;
        if k % 2 == 0 {
            let _ = t.next(o as u64);
        } else {
            t.update_mem_address(o as u64);
        }
        k += 1;
    }
    t
}

} // verus!
fn main() {}
