// Verus unit (C05, C04): ErrorStats::sort_error_msgs_by_mem_pos, extracted verbatim (struct ErrorStats too).
// The closures of the real body carry their contracts in place (Verus does not infer a closure's postcondition):
// the annotations are added to the closure headers by textual substitution, the closure bodies are the code's.
//   * mem_pos(e) is the value of the leading hexadecimal offset of e, and never panics on an offset-led message;
//   * the comparator handed to slice::sort_unstable_by is key_cmp: offset first, message text on ties;
//   * on return the list is a permutation of the list on entry, ordered by key_cmp, and nothing else changed.
// With lemma_sorted_list_canonical (below): two arrival orders of the same messages end as the same list.
// Precondition: every collected message leads with `0x<1..16 upper-case hex digits>` - established for every send
// site by unit v_msg_shape (messages are `format!("{offset:#X}: ...")` of a u64).
use vstd::prelude::*;
use vstd::seq_lib::*;
use vstd::relations::*;
use vstd::std_specs::cmp::*;
use core::cmp::Ordering;
verus! {

type LayerStave = (u8, u8);

// ---- regex stand-in (third-party crate): pattern `^0x(?<mem_pos>[0-9A-F]+)`
pub struct Regex;
pub struct Captures;
pub struct ReErr;
/// the text starts with `0x` followed by one to sixteen upper-case hexadecimal digits, then a character that is none
pub uninterp spec fn has_off(e: Seq<char>) -> bool;
/// the value of these digits
pub uninterp spec fn off(e: Seq<char>) -> u64;
/// `d` is the digit string of the leading offset of message `e`
pub uninterp spec fn digits_of(d: Seq<char>, e: Seq<char>) -> bool;
impl Regex {
    #[verifier::external_body]
    pub fn new(p: &str) -> (r: Result<Regex, ReErr>) ensures r is Ok { unimplemented!() }
    #[verifier::external_body]
    pub fn captures(&self, e: &str) -> (r: Option<Captures>)
        ensures r.is_some() == has_off(e@), r matches Some(c) ==> c.of() == e@
    { unimplemented!() }
}
impl Captures {
    pub uninterp spec fn of(&self) -> Seq<char>;
}
impl core::ops::Index<&str> for Captures {
    type Output = str;
    #[verifier::external_body]
    fn index(&self, n: &str) -> (r: &str) ensures digits_of(r@, self.of()) { unimplemented!() }
}
impl vstd::std_specs::core::IndexSpecImpl<&str> for Captures {
    open spec fn index_req(&self, n: &&str) -> bool { true }
}

// ---- std stand-ins (assumed specifications)
#[verifier::external_type_specification]
#[verifier::external_body]
pub struct ExParseIntError(core::num::ParseIntError);

/// one to sixteen hexadecimal digits parse, in radix 16, to their value
pub assume_specification[ u64::from_str_radix ](s: &str, radix: u32) -> (r: Result<u64, core::num::ParseIntError>)
    ensures forall|e: Seq<char>| #[trigger] has_off(e) && digits_of(s@, e) && radix == 16 ==> (r matches Ok(v) && v == off(e));

#[verifier::external_trait_specification]
pub trait ExFromStr: Sized {
    type ExternalTraitSpecificationFor: core::str::FromStr;
    type Err;
}
/// str::parse: no specification (the result is an arbitrary value of the target type)
#[verifier::allow(undeclared_external_trait)]
pub assume_specification<F: core::str::FromStr>[ str::parse ](s: &str) -> Result<F, <F as core::str::FromStr>::Err>;

#[verifier::allow(undeclared_external_trait)]
pub assume_specification<F: FnOnce() -> Ordering>[ Ordering::then_with ](o: Ordering, f: F) -> (r: Ordering)
    where F: core::marker::Destruct
    requires !(o is Equal) || f.requires(()),
    ensures (o is Equal) ==> f.ensures((), r), !(o is Equal) ==> r == o;

/// the comparator can answer `not Greater` for (x, y)
pub open spec fn not_after<T, F: FnMut(&T, &T) -> Ordering>(f: F, x: T, y: T) -> bool {
    exists|o: Ordering| #[trigger] f.ensures((&x, &y), o) && !(o is Greater)
}
/// core::slice sort postcondition: a permutation of the input in which no element is ordered after a later one
pub assume_specification<T, F: FnMut(&T, &T) -> Ordering>[ <[T]>::sort_unstable_by ](s: &mut [T], f: F)
    requires forall|i: int, j: int| 0 <= i < old(s)@.len() && 0 <= j < old(s)@.len() ==> #[trigger] f.requires((&old(s)@[i], &old(s)@[j])),
    ensures final(s)@.to_multiset() == old(s)@.to_multiset(),
        forall|i: int, j: int| #![trigger final(s)@[i], final(s)@[j]] 0 <= i < j < final(s)@.len() ==> not_after(f, final(s)@[i], final(s)@[j]);

/// `Ord for Box<str>` is a function of the two texts (vstd leaves it unspecified)
#[verifier::external_body]
pub proof fn axiom_box_str_cmp() ensures <Box<str> as OrdSpec>::obeys_cmp_spec() {}

pub open spec fn text_leq(a: Box<str>, b: Box<str>) -> bool { !(a.cmp_spec(&b) is Greater) }
/// ... and it is a total order on texts (lexicographic byte order)
#[verifier::external_body]
pub proof fn axiom_text_order_total()
    ensures total_ordering(|a: Box<str>, b: Box<str>| text_leq(a, b)),
        forall|a: Box<str>, b: Box<str>| a.cmp_spec(&b) is Equal ==> a == b,
{}

// ---- the sort key of the property: leading offset, ties broken by the message text
pub open spec fn key_cmp(a: Box<str>, b: Box<str>) -> Ordering {
    if off(a@) < off(b@) { Ordering::Less } else if off(a@) > off(b@) { Ordering::Greater } else { a.cmp_spec(&b) }
}
pub open spec fn key_leq(a: Box<str>, b: Box<str>) -> bool { !(key_cmp(a, b) is Greater) }
pub open spec fn all_offset_led(s: Seq<Box<str>>) -> bool { forall|i: int| 0 <= i < s.len() ==> has_off(#[trigger] s[i]@) }
pub open spec fn ordered(s: Seq<Box<str>>) -> bool { forall|i: int, j: int| 0 <= i < j < s.len() ==> key_leq(s[i], s[j]) }

//@EXTRACT error_stats_struct

impl ErrorStats {
//@EXTRACT sort_fn
}

pub proof fn lemma_key_leq_total()
    ensures total_ordering(|a: Box<str>, b: Box<str>| key_leq(a, b))
{
    axiom_text_order_total();
    let t = |a: Box<str>, b: Box<str>| text_leq(a, b);
    let leq = |a: Box<str>, b: Box<str>| key_leq(a, b);
    assert(reflexive(leq)) by {
        assert forall|x: Box<str>| #[trigger] leq(x, x) by { assert(t(x, x)); }
    }
    assert(antisymmetric(leq)) by {
        assert forall|x: Box<str>, y: Box<str>| #[trigger] leq(x, y) && #[trigger] leq(y, x) implies x == y by {
            assert(t(x, y) && t(y, x));
        }
    }
    assert(transitive(leq)) by {
        assert forall|x: Box<str>, y: Box<str>, z: Box<str>| #[trigger] leq(x, y) && #[trigger] leq(y, z) implies leq(x, z) by {
            if off(x@) == off(y@) && off(y@) == off(z@) { assert(t(x, y) && t(y, z)); assert(t(x, z)); }
        }
    }
    assert(strongly_connected(leq)) by {
        assert forall|x: Box<str>, y: Box<str>| #[trigger] leq(x, y) || #[trigger] leq(y, x) by { assert(t(x, y) || t(y, x)); }
    }
}

/// [C05] Two arrival orders of the same messages leave sort_error_msgs_by_mem_pos with the same list.
pub proof fn lemma_sorted_list_canonical(arrival1: Seq<Box<str>>, arrival2: Seq<Box<str>>, out1: Seq<Box<str>>, out2: Seq<Box<str>>)
    requires
        arrival1.to_multiset() == arrival2.to_multiset(),
        out1.to_multiset() == arrival1.to_multiset(), ordered(out1),
        out2.to_multiset() == arrival2.to_multiset(), ordered(out2),
    ensures out1 == out2
{
    lemma_key_leq_total();
    let leq = |a: Box<str>, b: Box<str>| key_leq(a, b);
    assert(sorted_by(out1, leq));
    assert(sorted_by(out2, leq));
    lemma_sorted_unique(out1, out2, leq);
}

} // verus!
impl core::fmt::Debug for ReErr { fn fmt(&self, _f: &mut core::fmt::Formatter<'_>) -> core::fmt::Result { Ok(()) } }
fn main() {}
