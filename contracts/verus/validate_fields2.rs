// Verus unit: completeness of the statistics comparison for the structs with heap fields.
// Field types are abstracted to u64 by the extraction (only equality of field values is used by the code:
// `self.f != other.f`, `.clone()`); nested statistics structs stay structs with an opaque validate_other
// whose contract (Ok <=> equal) is what this unit / v_validate_fields proves for them.
use vstd::prelude::*;
verus! {

#[verifier::external_body]
fn opaque_msg() -> String { String::new() }

pub struct TriggerStats { pub v: u64 }
impl TriggerStats {
    #[verifier::external_body]
    pub fn validate_other(&self, other: &Self) -> (r: Result<(), Vec<String>>) ensures r.is_ok() <==> *self == *other, r matches Err(v) ==> v@.len() > 0 { unimplemented!() }
    pub fn default() -> (r: Self) { TriggerStats { v: 0 } }
}

//@EXTRACT its_stats_struct
impl ItsStats {
    pub fn default() -> (r: Self) { ItsStats { layer_staves_seen: 0 } }
//@EXTRACT its_stats_validate_fields

//@EXTRACT its_stats_validate_other
}

//@EXTRACT rdh_stats_struct
impl RdhStats {
//@EXTRACT rdh_stats_validate_fields

//@EXTRACT rdh_stats_validate_other
}

//@EXTRACT error_stats_struct
impl ErrorStats {
//@EXTRACT error_stats_validate_fields

//@EXTRACT error_stats_validate_other
}

} // verus!
fn main() {}
