// Verus unit: Controller::update and Controller::process_stats (extracted verbatim), verified modularly.
// update: every received statistic reaches the collector exactly once, unchanged - whatever the progress
// display is doing (C14); after a fatal error further errors are dropped; the error cap raises the stop flag
// exactly when the error count reaches it (C16). process_stats: the collector is finalised exactly once with
// the configured mute flag; errors are displayed only when there are errors and they are not muted, with the
// configured cap and code filter (C16).
use vstd::prelude::*;
verus! {

pub struct Msg { pub id: u64 }
impl Msg {
    #[verifier::external_body] pub fn red(self) -> (r: Msg) { unimplemented!() }
    #[verifier::external_body] pub fn yellow(self) -> (r: Msg) { unimplemented!() }
    #[verifier::external_body] pub fn to_string(&self) -> (r: Msg) { unimplemented!() }
}
#[verifier::external_body]
fn opaque_msg() -> Msg { unimplemented!() }
#[verifier::external_body]
fn opaque_msg_shaped(b: bool) -> Msg { unimplemented!() }
pub struct TrgStr { pub id: u64 }
#[derive(PartialEq, Eq, Structural, Clone, Copy)]
pub enum SystemId { ITS, Other }
pub struct AlpideStats { pub v: u64 }

pub enum StatType {
    Fatal(Msg), Error(Msg), RunTriggerType((u32, TrgStr)), TriggerType(u32), SystemId(SystemId), RDHSeen(u32),
    RDHFiltered(u32), PayloadSize(u32), LinksObserved(u8), RdhVersion(u8), DataFormat(u8), HBFsSeen(u32),
    LayerStaveSeen { layer: u8, stave: u8 }, FeeId(u16), AlpideStats(AlpideStats),
}

#[derive(PartialEq, Eq, Structural, Clone, Copy)]
pub enum Ordering { SeqCst }
/// Arc<AtomicBool>: store is the only operation used here
pub struct Flag { pub v: bool }
impl Flag {
    pub fn store(&mut self, val: bool, o: Ordering) ensures final(self).v == val { self.v = val; }
    pub fn load(&self, o: Ordering) -> (r: bool) ensures r == self.v { self.v }
}

pub use ax::errs;
pub uninterp spec fn fatal(log: Seq<StatType>) -> bool;
pub uninterp spec fn rdhs_in(log: Seq<StatType>) -> bool;   // some RDH was counted (RdhStats::rdhs_seen > 0)    // some Fatal entry (Kani full_collector_errors)

pub struct ErrIter;
pub struct ErrorStats;
impl ErrorStats { #[verifier::external_body] pub fn errors_as_slice_iter(&self) -> (r: ErrIter) { unimplemented!() } }

pub struct StatsCollector { pub log: Ghost<Seq<StatType>>, pub finalized: Ghost<Seq<bool>>, pub es: ErrorStats, pub written: Ghost<Seq<(DataOutputMode, DataOutputFormat, nat)>>, pub customs: Ghost<nat> }
impl StatsCollector {
    #[verifier::external_body]
    pub fn collect(&mut self, s: StatType)
        ensures final(self).log@ == old(self).log@.push(s), final(self).finalized == old(self).finalized, final(self).written == old(self).written, final(self).customs == old(self).customs,
            errs(final(self).log@) == errs(old(self).log@) + (if s is Error { 1int } else { 0 }),
            fatal(final(self).log@) == (fatal(old(self).log@) || s is Fatal),
    { unimplemented!() }
    #[verifier::external_body] pub fn any_fatal_err(&self) -> (r: bool) ensures r == fatal(self.log@) { unimplemented!() }
    #[verifier::external_body] pub fn err_count(&self) -> (r: u64) ensures r as int == errs(self.log@) { unimplemented!() }
    #[verifier::external_body] pub fn any_errors(&self) -> (r: bool) ensures r == (errs(self.log@) > 0) { unimplemented!() }
    #[verifier::external_body] pub fn hbfs_seen(&self) -> (r: u32) { unimplemented!() }
    #[verifier::external_body]
    pub fn finalize(&mut self, mute_errors: bool)
        ensures final(self).log == old(self).log, final(self).finalized@ == old(self).finalized@.push(mute_errors), final(self).written == old(self).written, final(self).customs == old(self).customs
    { unimplemented!() }
    pub fn error_stats(&self) -> (r: &ErrorStats) { &self.es }
    /// comparison with the statistics read from a file (unit v_collector_validate)
    #[verifier::external_body]
    pub fn validate_other_stats(&self, other: &StatsCollector, mute_errors: bool) -> (r: Result<(), ReadErr>) ensures r is Err == stats_mismatch(self.log@) { unimplemented!() }
    #[verifier::external_body] pub fn any_rdhs_seen(&self) -> (r: bool) ensures r == rdhs_in(self.log@) { unimplemented!() }
    /// custom checks on the collected statistics may add errors (E9001.., Kani full_validate_custom_stats), never remove any
    #[verifier::external_body]
    pub fn validate_custom_stats(&mut self, cfg: &Cfg)
        ensures errs(final(self).log@) >= errs(old(self).log@), fatal(final(self).log@) == fatal(old(self).log@), rdhs_in(final(self).log@) == rdhs_in(old(self).log@), final(self).finalized == old(self).finalized, final(self).written == old(self).written,
            final(self).customs@ == old(self).customs@ + 1
    { unimplemented!() }
    #[verifier::external_body] pub fn unique_error_codes_as_slice(&self) -> (r: &[u64]) { unimplemented!() }
    /// serialises the statistics and writes them out (unit v_write_stats)
    #[verifier::external_body]
    pub fn write_stats(&mut self, mode: &DataOutputMode, format: DataOutputFormat)
        ensures final(self).written@ == old(self).written@.push((*mode, format, old(self).finalized@.len())), final(self).log == old(self).log, final(self).finalized == old(self).finalized, final(self).customs == old(self).customs
    { unimplemented!() }
}

// ---- the statistics file to compare against (`--input-stats-file`)
#[derive(Clone, Copy)]
pub struct OsStr { pub id: Ghost<int> }
pub uninterp spec fn ext_is(e: int, s: Seq<char>) -> bool;
impl PartialEq<&str> for OsStr {
    #[verifier::external_body]
    fn eq(&self, other: &&str) -> (r: bool) ensures r == ext_is(self.id@, (*other)@) { unimplemented!() }
}
pub struct PathBuf { pub ext: Option<OsStr> }
impl PathBuf {
    /// (the real method returns Option<&OsStr>; by value here so that the comparison with a literal keeps its specification)
    pub fn extension(&self) -> (r: Option<OsStr>) ensures r == self.ext { self.ext }
}
pub uninterp spec fn stats_file() -> Option<PathBuf>;   // --input-stats-file
pub uninterp spec fn stats_file_readable() -> bool;      // the file can be read
pub uninterp spec fn stats_file_parses() -> bool;        // its content is a well-formed statistics document
pub uninterp spec fn stats_mismatch(mine: Seq<StatType>) -> bool;   // validate_other_stats reports a difference (unit v_collector_validate)
pub struct FileText;
pub struct ReadErr;
pub mod fs {
    use vstd::prelude::*;
    use crate::*;
    #[verifier::external_body]
    pub fn read_to_string(p: &PathBuf) -> (r: Result<FileText, ReadErr>) ensures r is Ok == stats_file_readable() { unimplemented!() }
}
pub struct OtherStats;
pub mod serde_json {
    use vstd::prelude::*;
    use crate::*;
    #[verifier::external_body]
    pub fn from_str(s: &FileText) -> (r: Result<StatsCollector, ReadErr>) ensures r is Ok == stats_file_parses() { unimplemented!() }
}
pub mod toml {
    use vstd::prelude::*;
    use crate::*;
    #[verifier::external_body]
    pub fn from_str(s: &FileText) -> (r: Result<StatsCollector, ReadErr>) ensures r is Ok == stats_file_parses() { unimplemented!() }
}

pub uninterp spec fn cfg_cap() -> u32;       // --max-tolerate-errors
pub uninterp spec fn cfg_mute() -> bool;     // --mute-errors
pub uninterp spec fn cfg_filter() -> bool;   // an error-code filter is configured
pub struct CodeFilter;
pub struct ViewCmd;
#[derive(PartialEq, Eq, Structural, Clone, Copy)]
pub enum DataOutputMode { File, Stdout, None }
#[allow(clippy::upper_case_acronyms)]
#[derive(PartialEq, Eq, Structural, Clone, Copy)]
pub enum DataOutputFormat { JSON, TOML }
pub uninterp spec fn cfg_custom() -> bool;   // custom checks configured
pub uninterp spec fn cfg_view() -> bool;     // a view command
pub uninterp spec fn cfg_out() -> DataOutputMode;   // data output mode
pub uninterp spec fn cfg_stats_mode() -> DataOutputMode;               // --output-stats
pub uninterp spec fn cfg_stats_format() -> Option<DataOutputFormat>;   // --stats-format
pub struct Cfg;
impl Cfg {
    #[verifier::external_body] pub fn input_stats_file(&self) -> (r: Option<&PathBuf>) ensures r.is_some() == stats_file().is_some(), r matches Some(p) ==> *p == stats_file().unwrap() { unimplemented!() }
    #[verifier::external_body] pub fn custom_checks_enabled(&self) -> (r: bool) ensures r == cfg_custom() { unimplemented!() }
    #[verifier::external_body] pub fn view(&self) -> (r: Option<ViewCmd>) ensures r is Some == cfg_view() { unimplemented!() }
    #[verifier::external_body] pub fn output_mode(&self) -> (r: DataOutputMode) ensures r == cfg_out() { unimplemented!() }
    #[verifier::external_body] pub fn stats_output_mode(&self) -> (r: DataOutputMode) ensures r == cfg_stats_mode() { unimplemented!() }
    #[verifier::external_body] pub fn stats_output_format(&self) -> (r: Option<DataOutputFormat>) ensures r == cfg_stats_format() { unimplemented!() }
    #[verifier::external_body] pub fn max_tolerate_errors(&self) -> (r: u32) ensures r == cfg_cap() { unimplemented!() }
    #[verifier::external_body] pub fn mute_errors(&self) -> (r: bool) ensures r == cfg_mute() { unimplemented!() }
    #[verifier::external_body] pub fn error_code_filter(&self) -> (r: Option<&CodeFilter>) ensures r.is_some() == cfg_filter() { unimplemented!() }
}

/// display of the error list (ErrPrinter: Kani bnd_error_cap, bnd_error_code_filter_*)
pub struct ErrPrinter;
impl ErrPrinter {
    /// OBLIGATION: the printer is built with the configured cap (None iff 0) and the configured code filter
    #[verifier::external_body]
    pub fn new(max_errors: Option<u32>, error_code_filter: Option<&CodeFilter>) -> (r: ErrPrinter)
        requires
            max_errors == (if cfg_cap() > 0 { Some(cfg_cap()) } else { None::<u32> }), // [C16] an error cap N shows at most N messages: the configured cap is what the printer gets
            error_code_filter.is_some() == cfg_filter(), // [C16] the configured code filter is what the printer gets
    { unimplemented!() }
    #[verifier::external_body]
    pub fn print(&self, err_msgs: ErrIter, unique_error_codes: &[u64]) { unimplemented!() }
}

pub struct ProgressBar;
impl ProgressBar {
    #[verifier::external_body] pub fn set_prefix(&self, m: Msg) { unimplemented!() }
    #[verifier::external_body] pub fn set_message(&self, m: Msg) { unimplemented!() }
    #[verifier::external_body] pub fn abandon(&self) { unimplemented!() }
}

pub struct StatSender;
pub struct RecvErr;
/// the statistics channel: `queue` = everything the producers send before they all drop their senders, in arrival order;
/// recv fails only when the channel is disconnected and drained
pub struct StatReceiver { pub queue: Ghost<Seq<StatType>>, pub taken: Ghost<Seq<StatType>> }
impl StatReceiver {
    #[verifier::external_body]
    pub fn recv(&mut self) -> (r: Result<StatType, RecvErr>)
        ensures
            (r matches Ok(t) ==> old(self).queue@.len() > 0 && t == old(self).queue@[0]
                && final(self).queue@ == old(self).queue@.subrange(1, old(self).queue@.len() as int) && final(self).taken@ == old(self).taken@.push(t)),
            (r is Err ==> old(self).queue@.len() == 0 && final(self).queue == old(self).queue && final(self).taken == old(self).taken),
    { unimplemented!() }
}
/// errs counts entries
pub mod ax {
    use vstd::prelude::*;
    use crate::*;
    pub uninterp spec fn errs(log: Seq<StatType>) -> int;      // number of Error entries (ErrorStats::err_count: Kani full_collector_errors)
    #[verifier::external_body]
    pub broadcast proof fn axiom_errs_nonneg(log: Seq<StatType>) ensures #[trigger] errs(log) >= 0 {}
}
broadcast use ax::axiom_errs_nonneg;
/// what the collector has recorded after the controller saw one more statistic (contract of `update`)
pub open spec fn applied(log: Seq<StatType>, s: StatType) -> Seq<StatType> { if is_error_kind(s) && fatal(log) { log } else { log.push(s) } }
pub open spec fn applied_all(log: Seq<StatType>, q: Seq<StatType>, n: int) -> Seq<StatType> decreases n {
    if n <= 0 { log } else { applied(applied_all(log, q, n - 1), q[n - 1]) }
}

pub struct Controller {
    pub stats_send_chan: Option<StatSender>,
    pub stats_recv_chan: StatReceiver,
    pub stats_collector: StatsCollector,
    pub config: &'static Cfg,
    pub max_tolerate_errors: u32,
    pub end_processing_flag: Flag,
    pub any_errors_flag: Flag,
    pub spinner: Option<ProgressBar>,
    pub printed: Ghost<nat>,   // reports printed
}

pub open spec fn is_error_kind(s: StatType) -> bool { s is Error || s is Fatal }

impl Controller {
    #[verifier::external_body]
    fn set_spinner_msg(&mut self, new_msg: Msg)
        ensures final(self).printed == old(self).printed, final(self).stats_collector == old(self).stats_collector, final(self).max_tolerate_errors == old(self).max_tolerate_errors,
            final(self).stats_send_chan == old(self).stats_send_chan, final(self).stats_recv_chan == old(self).stats_recv_chan,
            final(self).end_processing_flag == old(self).end_processing_flag, final(self).any_errors_flag == old(self).any_errors_flag
    { unimplemented!() }
    #[verifier::external_body]
    fn new_spinner_with_prefix(&mut self, prefix: Msg)
        ensures final(self).printed == old(self).printed, final(self).stats_collector == old(self).stats_collector, final(self).max_tolerate_errors == old(self).max_tolerate_errors,
            final(self).stats_send_chan == old(self).stats_send_chan, final(self).stats_recv_chan == old(self).stats_recv_chan,
            final(self).end_processing_flag == old(self).end_processing_flag, final(self).any_errors_flag == old(self).any_errors_flag,
            final(self).spinner.is_some()
    { unimplemented!() }

//@EXTRACT update

//@EXTRACT process_stats

    /// report printing (text): opaque
    #[verifier::external_body]
    fn print(&mut self)
        ensures final(self).printed@ == old(self).printed@ + 1,
            final(self).stats_collector == old(self).stats_collector, final(self).max_tolerate_errors == old(self).max_tolerate_errors,
            final(self).stats_send_chan == old(self).stats_send_chan, final(self).stats_recv_chan == old(self).stats_recv_chan,
            final(self).end_processing_flag == old(self).end_processing_flag, final(self).any_errors_flag == old(self).any_errors_flag
    { unimplemented!() }

    /// what the collector has recorded when the receive loop is over
    pub open spec fn received(log0: Seq<StatType>, q: Seq<StatType>) -> Seq<StatType> { applied_all(log0, q, q.len() as int) }

//@EXTRACT run
}

} // verus!
impl core::fmt::Debug for ReadErr { fn fmt(&self, _f: &mut core::fmt::Formatter<'_>) -> core::fmt::Result { Ok(()) } }
fn main() {}
