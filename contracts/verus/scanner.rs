// Verus unit: InputScanner::load_cdp (extracted verbatim from /repo), verified modularly.
// Opaque here, with contracts: the RDH accessors (proved by Kani full_rdh_decode / full_payload_size),
// load_rdh_cru (leaves the tracker at the start of the header it returns; Kani scanner harnesses, bounded),
// seek_to_next_rdh / MemPosTracker (proved in unit v_trackers), load_payload_raw, report.
// `std::io::Error` / `ErrorKind` are local stand-ins with the same paths (only `kind()` is used).
use vstd::prelude::*;
verus! {

#[derive(PartialEq, Eq, Structural, Clone, Copy)]
pub enum IoErrorKind { InvalidInput, UnexpectedEof, InvalidData, Other }
pub struct IoError { pub k: IoErrorKind }
impl IoError {
    pub fn kind(&self) -> (r: IoErrorKind) ensures r == self.k { self.k }
}
pub mod std {
    pub use ::core::mem;
    pub mod io {
        pub use crate::IoErrorKind as ErrorKind;
        pub use crate::IoError as Error;
    }
}

pub trait RDH: Sized {
    spec fn s_offset_to_next(&self) -> u16;
    spec fn s_payload_size(&self) -> u16;
    fn offset_to_next(&self) -> (r: u16) ensures r == self.s_offset_to_next();
    fn payload_size(&self) -> (r: u16) ensures r == self.s_payload_size();
}

//@EXTRACT cdp_tuple

/// an error message; `sortable`: starts with the upper-case hexadecimal offset the error sorter parses (see unit v_msg_shape)
pub struct Msg { pub sortable: bool, pub at: u64 }
#[verifier::external_body]
fn opaque_msg_shaped(b: bool) -> (m: Msg) ensures m.sortable == b { unimplemented!() }
/// message whose leading `{..:#X}` directive renders `at`
#[verifier::external_body]
fn opaque_msg_at(b: bool, at: u64) -> (m: Msg) ensures m.sortable == b, m.at == at { unimplemented!() }
pub enum InputStatType { Error(Msg) }

pub struct MemPosTracker { pub memory_address_bytes: u64 }
impl MemPosTracker {
    pub fn current_mem_address(&self) -> (r: u64) ensures r == self.memory_address_bytes { self.memory_address_bytes }
    #[verifier::external_body]
    pub fn update_mem_address(&mut self, mem_offset: u64)
        ensures final(self).memory_address_bytes as int == old(self).memory_address_bytes + mem_offset
    { unimplemented!() }
}

/// abstract input: position of the reader in the stream and the bytes of the stream
pub struct InputScanner {
    pub tracker: MemPosTracker,
    pub skip_payload: bool,
    pub reader_pos: Ghost<int>,
    pub reported: Ghost<int>,
    pub reported_at: Ghost<Seq<u64>>, // leading offsets of the error messages reported
    pub payload_reads: Ghost<Seq<(int, int)>>, // (position, size) of every payload read
    pub base: Ghost<int>, // tracker offset minus reader position before the step
}

impl InputScanner {
    pub open spec fn synced(&self) -> bool { self.tracker.memory_address_bytes as int - self.reader_pos@ == self.base@ }

    #[verifier::external_body]
    fn report(&mut self, stat: InputStatType)
        requires stat matches InputStatType::Error(m) ==> m.sortable, // [C04][C18] every reported error starts with 0x<UPPER HEX> (the error sorter panics otherwise)
        ensures final(self).reported@ == old(self).reported@ + 1, final(self).tracker == old(self).tracker,
            stat matches InputStatType::Error(m) ==> final(self).reported_at@ == old(self).reported_at@.push(m.at),
            final(self).reader_pos == old(self).reader_pos, final(self).skip_payload == old(self).skip_payload,
            final(self).payload_reads == old(self).payload_reads, final(self).base == old(self).base
    { unimplemented!() }

    fn current_mem_pos(&self) -> (r: u64) ensures r == self.tracker.memory_address_bytes { self.tracker.current_mem_address() }

    /// contract of load_rdh_cru: on Ok the reader stands right after the returned header (64 bytes) and the
    /// tracker holds the offset of that header; skip flag, reports-by-this-call and payload reads unchanged.
    #[verifier::external_body]
    fn load_rdh_cru<T: RDH>(&mut self) -> (r: Result<T, std::io::Error>)
        requires old(self).synced()
        ensures r.is_ok() ==> final(self).tracker.memory_address_bytes as int - (final(self).reader_pos@ - 64) == old(self).base@,
            final(self).skip_payload == old(self).skip_payload, final(self).payload_reads == old(self).payload_reads,
            final(self).base == old(self).base, final(self).reported == old(self).reported, final(self).reported_at == old(self).reported_at,
            r.is_ok() ==> final(self).tracker.memory_address_bytes < 0x7FFF_FFFF_FFFF_0000,
            r matches Ok(h) ==> h.s_offset_to_next() >= 64,
    { unimplemented!() }

    /// seek_to_next_rdh(o): tracker += o (MemPosTracker::next), reader moves forward by o - 64 on Ok
    #[verifier::external_body]
    fn seek_to_next_rdh(&mut self, offset_to_next: u16) -> (r: Result<(), std::io::Error>)
        ensures final(self).tracker.memory_address_bytes as int == old(self).tracker.memory_address_bytes + offset_to_next,
            r.is_ok() ==> final(self).reader_pos@ == old(self).reader_pos@ + offset_to_next - 64,
            final(self).skip_payload == old(self).skip_payload, final(self).payload_reads == old(self).payload_reads,
            final(self).base == old(self).base, final(self).reported == old(self).reported, final(self).reported_at == old(self).reported_at
    { unimplemented!() }

    /// load_payload_raw(n): on Ok exactly n bytes were read at the reader position (recorded), result has length n
    #[verifier::external_body]
    fn load_payload_raw(&mut self, payload_size: usize) -> (r: Result<Vec<u8>, std::io::Error>)
        ensures r matches Ok(v) ==> v.len() == payload_size && final(self).reader_pos@ == old(self).reader_pos@ + payload_size,
            final(self).payload_reads@ == old(self).payload_reads@.push((old(self).reader_pos@, payload_size as int)),
            final(self).tracker == old(self).tracker, final(self).skip_payload == old(self).skip_payload,
            final(self).base == old(self).base, final(self).reported == old(self).reported, final(self).reported_at == old(self).reported_at
    { unimplemented!() }

//@EXTRACT load_cdp
}

} // verus!
fn main() {}
