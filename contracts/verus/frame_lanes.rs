// Verus unit (C13): its::alpide::check_alpide_data_frame (extracted, with struct ValidatedLane) for frames of ANY
// number of lanes (the Kani harness bnd1_check_alpide_data_frame covers one lane on the real types).
// Per-lane analysis is an opaque analyzer with its outcome as uninterpreted functions of the lane's data
// (decoder step / chip count / chip order / per-lane verdict: Kani full_alpide_* and Verus v_lane_checks).
//   * every lane of the frame is analysed exactly once, in frame order, by a fresh analyzer;
//   * a lane is listed in error (one message, its lane NUMBER) iff its analysis failed;
//   * a lane that announced a fatal state is recorded by lane number (None if there is none);
//   * exactly the error-free, non-fatal lanes that carry a bunch counter take part in the cross-lane comparison,
//     each with its own lane number and bunch counter, and what the comparison reports is appended;
//   * the ALPIDE statistics returned are the sum over all lanes.
use vstd::prelude::*;
use vstd::std_specs::iter::IteratorSpec;
verus! {

#[derive(PartialEq, Eq, Structural, Clone, Copy)]
pub enum Layer { Inner, Middle, Outer }
pub struct Msg;
#[verifier::external_body]
pub fn opaque_msg() -> Msg { unimplemented!() }
/// error text of a lane (std String in the code)
pub struct String { pub id: int }
impl String {
    #[verifier::external_body]
    pub fn insert_str(&mut self, idx: usize, s: &Msg) { unimplemented!() }
}
pub struct Orders;
pub struct Checks;
impl Checks {
    #[verifier::external_body]
    pub fn chip_orders_ob(&'static self) -> Option<&'static Orders> { unimplemented!() }
    #[verifier::external_body]
    pub fn chip_count_ob(&'static self) -> Option<u8> { unimplemented!() }
}
#[derive(Clone, Copy)]
pub struct AlpideStats { pub v: u64 }
pub uninterp spec fn stats_zero() -> AlpideStats;
pub uninterp spec fn stats_add(a: AlpideStats, b: AlpideStats) -> AlpideStats;
impl AlpideStats {
    #[verifier::external_body]
    pub fn default() -> (r: AlpideStats) ensures r == stats_zero() { unimplemented!() }
    /// AlpideStats::sum (field-wise addition: Kani full_alpide_stats_sum)
    #[verifier::external_body]
    pub fn sum(&mut self, other: AlpideStats) ensures *final(self) == stats_add(*old(self), other) { unimplemented!() }
}

pub struct LaneDataFrame { pub id: int }
// outcome of analysing one lane's data (functions of the lane data, the layer and the configured chip checks)
pub uninterp spec fn lane_no(l: LaneDataFrame, layer: Layer) -> u8;
pub uninterp spec fn lane_err(l: LaneDataFrame, layer: Layer) -> bool;
pub uninterp spec fn lane_fatal(l: LaneDataFrame, layer: Layer) -> bool;
pub uninterp spec fn lane_bc(l: LaneDataFrame, layer: Layer) -> Option<u8>;
pub uninterp spec fn lane_stats(l: LaneDataFrame, layer: Layer) -> AlpideStats;
impl LaneDataFrame {
    #[verifier::external_body]
    pub fn lane_number(&self, from_layer: Layer) -> (r: u8) ensures r == lane_no(*self, from_layer) { unimplemented!() }
}
pub struct AlpideReadoutFrame { pub lanes: Vec<LaneDataFrame>, pub layer: Layer }
impl AlpideReadoutFrame {
    #[verifier::external_body]
    pub fn from_layer(&self) -> (r: Layer) ensures r == self.layer { unimplemented!() }
    #[verifier::external_body]
    pub fn lane_data_frames_as_slice(&self) -> (r: &[LaneDataFrame]) ensures r@ == self.lanes@ { unimplemented!() }
}
pub struct LaneAlpideFrameAnalyzer { pub layer: Layer, pub done: Ghost<Option<LaneDataFrame>> }
impl LaneAlpideFrameAnalyzer {
    #[verifier::external_body]
    pub fn new(data_origin: Layer, valid_chip_order_ob: Option<&'static Orders>, valid_chip_count_ob: Option<u8>) -> (r: LaneAlpideFrameAnalyzer)
        ensures r.layer == data_origin, r.done@ is None
    { unimplemented!() }
    #[verifier::external_body]
    pub fn analyze_alpide_frame(&mut self, lane_data_frame: &LaneDataFrame) -> (r: Result<(), String>)
        requires old(self).done@ is None,   // a fresh analyzer per lane
        ensures final(self).layer == old(self).layer, final(self).done@ == Some(*lane_data_frame),
            r is Err <==> lane_err(*lane_data_frame, old(self).layer),
    { unimplemented!() }
    #[verifier::external_body]
    pub fn is_fatal_lane(&self) -> (r: bool)
        requires self.done@ is Some
        ensures r == lane_fatal(self.done@.unwrap(), self.layer)
    { unimplemented!() }
    #[verifier::external_body]
    pub fn validated_bc(&self) -> (r: Option<u8>)
        requires self.done@ is Some
        ensures r == lane_bc(self.done@.unwrap(), self.layer)
    { unimplemented!() }
    #[verifier::external_body]
    pub fn alpide_stats(&mut self) -> (r: &AlpideStats)
        requires old(self).done@ is Some
        ensures *r == lane_stats(old(self).done@.unwrap(), old(self).layer), *final(self) == *old(self)
    { unimplemented!() }
}

//@EXTRACT validated_lane_struct

// ---- the cross-lane bunch counter comparison (validate_lane_bcs: itertools / HashMap, not verified): what it appends
pub uninterp spec fn bc_mismatch(v: Seq<ValidatedLane>) -> bool;
pub uninterp spec fn bc_mismatch_lanes(v: Seq<ValidatedLane>) -> Seq<u8>;
#[verifier::external_body]
fn validate_lane_bcs(validated_lanes: &[ValidatedLane], lane_error_msgs: &mut Vec<String>, lane_error_ids: &mut Vec<u8>)
    ensures
        final(lane_error_ids)@ == old(lane_error_ids)@ + (if bc_mismatch(validated_lanes@) { bc_mismatch_lanes(validated_lanes@) } else { Seq::empty() }),
        final(lane_error_msgs)@.len() == old(lane_error_msgs)@.len() + (if bc_mismatch(validated_lanes@) { 1int } else { 0int }),
        forall|i: int| 0 <= i < old(lane_error_msgs)@.len() ==> final(lane_error_msgs)@[i] == old(lane_error_msgs)@[i],
{ unimplemented!() }

// ---- expected result (from the property statement), over the first n lanes of the frame
pub open spec fn err_ids(ls: Seq<LaneDataFrame>, layer: Layer, n: int) -> Seq<u8> decreases n {
    if n <= 0 { Seq::empty() } else if lane_err(ls[n - 1], layer) { err_ids(ls, layer, n - 1).push(lane_no(ls[n - 1], layer)) } else { err_ids(ls, layer, n - 1) }
}
pub open spec fn fatal_ids(ls: Seq<LaneDataFrame>, layer: Layer, n: int) -> Seq<u8> decreases n {
    if n <= 0 { Seq::empty() } else if !lane_err(ls[n - 1], layer) && lane_fatal(ls[n - 1], layer) { fatal_ids(ls, layer, n - 1).push(lane_no(ls[n - 1], layer)) } else { fatal_ids(ls, layer, n - 1) }
}
pub open spec fn validated(ls: Seq<LaneDataFrame>, layer: Layer, n: int) -> Seq<ValidatedLane> decreases n {
    if n <= 0 { Seq::empty() }
    else if !lane_err(ls[n - 1], layer) && !lane_fatal(ls[n - 1], layer) && lane_bc(ls[n - 1], layer) is Some {
        validated(ls, layer, n - 1).push(ValidatedLane { lane_id: lane_no(ls[n - 1], layer), bunch_counter: lane_bc(ls[n - 1], layer).unwrap() })
    } else { validated(ls, layer, n - 1) }
}
pub open spec fn stats_total(ls: Seq<LaneDataFrame>, layer: Layer, n: int) -> AlpideStats decreases n {
    if n <= 0 { stats_zero() } else { stats_add(stats_total(ls, layer, n - 1), lane_stats(ls[n - 1], layer)) }
}

//@EXTRACT check_alpide_data_frame

} // verus!
fn main() {}
