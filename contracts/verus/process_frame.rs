// Verus unit (C13): ItsReadoutFrameValidator::{process_frame, add_fatal_lanes} and the struct (extracted): what is
// reported for one closed readout frame, from the contracts of the frame-level checks.
//   * the stored frame is consumed (a frame is processed at most once);
//   * every message carries its documented code right after the offset: E701 empty frame, E72 (inner) / E73 (middle, outer)
//     lane-count rule, E74 (inner) / E75 (middle, outer) lanes in error (extraction rule msg_rule at_code);
//   * an empty frame: exactly one message (E701, unit v_msg_shape) led by the frame's start offset, nothing else -
//     no ALPIDE statistics, no change of the fatal-lane list;
//   * otherwise: the lanes that announced a fatal state in this frame are added to the running list BEFORE the
//     lane-count / grouping rule is evaluated against that list (check_frame_lanes_valid: v_frame, Kani bnd_frame_lanes_ib);
//     one message led by the frame's start offset iff that rule fails; the frame's ALPIDE statistics are sent exactly
//     once; one message led by the frame's start offset iff any lane is in error (own analysis or cross-lane bunch
//     counter comparison: check_alpide_data_frame, unit v_frame_lanes).
use vstd::prelude::*;
verus! {

#[derive(PartialEq, Eq, Structural, Clone, Copy)]
pub enum Layer { Inner, Middle, Outer }
pub struct Msg { pub sortable: bool, pub at: u64, pub code: u32 }
/// an error code `E<n>` (a string literal in the code; extraction rule msg_rule at_code)
#[derive(Clone, Copy)]
pub struct Code { pub n: u32 }
pub fn code_lit(n: u32) -> (r: Code) ensures r.n == n { Code { n } }
impl Msg {
    pub fn into(self) -> (r: Msg) ensures r == self { self }
    /// appending text keeps the leading offset
    #[verifier::external_body]
    pub fn push_str(&mut self, s: &LaneMsg) ensures final(self).sortable == old(self).sortable, final(self).at == old(self).at, final(self).code == old(self).code { unimplemented!() }
}
#[verifier::external_body]
fn opaque_msg_at(b: bool, at: u64) -> (m: Msg) ensures m.sortable == b, m.at == at { unimplemented!() }
/// `format!("{at:#X}: [{code}] ..")`: leading offset and the error code right after it
#[verifier::external_body]
fn opaque_msg_code(b: bool, at: u64, code: Code) -> (m: Msg) ensures m.sortable == b, m.at == at, m.code == code.n { unimplemented!() }
pub struct LaneMsg;
pub struct AlpideStats { pub id: int }
pub enum StatType { Error(Msg), AlpideStats(AlpideStats) }
pub struct SendErr;
pub mod flume {
    use vstd::prelude::*;
    use crate::*;
    pub struct Sender<T> { pub log: Ghost<Seq<T>> }
    impl Sender<StatType> {
        #[verifier::external_body]
        pub fn send(&mut self, x: StatType) -> (r: Result<(), SendErr>)
            requires x matches StatType::Error(m) ==> m.sortable // [C04][C05] an error message must lead with its offset (the end-of-run sorter parses it and panics otherwise)
            ensures r.is_ok(), final(self).log@ == old(self).log@.push(x)
        { unimplemented!() }
    }
}
pub struct Cfg;
impl Cfg {
    #[verifier::external_body] pub fn global() -> &'static Cfg { unimplemented!() }
    #[verifier::external_body] pub fn mute_errors(&self) -> bool { unimplemented!() }
}
/// the stored status words (only what the empty-frame message looks at)
pub struct Ddw0;
impl Ddw0 { #[verifier::external_body] pub fn lane_status(&self) -> u64 { unimplemented!() } }
pub struct Tdt;
impl Tdt {
    #[verifier::external_body] pub fn lane_status_15_0(&self) -> u16 { unimplemented!() }
    #[verifier::external_body] pub fn lane_status_23_16(&self) -> u8 { unimplemented!() }
    #[verifier::external_body] pub fn lane_status_27_24(&self) -> u8 { unimplemented!() }
}
pub struct StatusWordContainer { pub d: Option<Ddw0>, pub t: Option<Tdt> }
impl StatusWordContainer {
    pub fn ddw(&self) -> (r: Option<&Ddw0>) ensures r is Some == self.d is Some { self.d.as_ref() }
    pub fn tdt(&self) -> (r: Option<&Tdt>) ensures r is Some == self.t is Some { self.t.as_ref() }
}
#[verifier::external_body]
fn opaque_msg_shaped(b: bool) -> (m: Msg) ensures m.sortable == b { unimplemented!() }
pub struct LitS;
pub fn lit(h: u64) -> LitS { LitS }
impl LitS { #[verifier::external_body] pub fn to_text(&self) -> Msg { unimplemented!() } }
pub struct Rdh;
impl Rdh { #[verifier::external_body] pub fn fee_id(&self) -> u16 { unimplemented!() } }
pub struct Checks;
pub struct Stave;

/// lane-number lists (Vec<u8> in the code)
pub struct LaneList { pub v: Ghost<Seq<u8>> }
impl LaneList {
    #[verifier::external_body]
    pub fn extend(&mut self, other: LaneList) ensures final(self).v@ == old(self).v@ + other.v@ { unimplemented!() }
}
pub struct LaneMsgs { pub n: Ghost<nat>, pub pos: Ghost<int> }
impl LaneMsgs {
    #[verifier::external_body] pub fn is_empty(&self) -> (r: bool) ensures r == (self.n@ == 0) { unimplemented!() }
    #[verifier::external_body] pub fn into_iter(self) -> (r: LaneMsgs) ensures r.n == self.n, r.pos@ == 0 { unimplemented!() }
}
impl Iterator for LaneMsgs {
    type Item = LaneMsg;
    #[verifier::external_body]
    fn next(&mut self) -> (r: Option<LaneMsg>) { unimplemented!() }
}
impl vstd::std_specs::iter::IteratorSpecImpl for LaneMsgs {
    open spec fn obeys_prophetic_iter_laws(&self) -> bool { true }
    open spec fn remaining(&self) -> Seq<LaneMsg> { Seq::new((self.n@ - self.pos@) as nat, |i: int| LaneMsg) }
    open spec fn will_return_none(&self) -> bool { true }
    open spec fn peek(&self, index: int) -> Option<LaneMsg> { if 0 <= index < self.n@ - self.pos@ { Some(LaneMsg) } else { None } }
    open spec fn decrease(&self) -> Option<nat> { Some((self.n@ - self.pos@) as nat) }
}

/// a stored readout frame and the verdicts of the frame-level checks on it (uninterpreted: under contract elsewhere)
pub struct AlpideReadoutFrame { pub id: int, pub start: u64, pub end: u64, pub empty: bool, pub layer: Layer }
pub uninterp spec fn frame_err_lanes(f: AlpideReadoutFrame) -> nat;        // number of lane error messages (check_alpide_data_frame)
pub uninterp spec fn frame_fatal(f: AlpideReadoutFrame) -> Option<Seq<u8>>; // lanes announcing a fatal state in this frame
pub uninterp spec fn frame_stats(f: AlpideReadoutFrame) -> int;
pub uninterp spec fn lanes_valid(f: AlpideReadoutFrame, fatal: Option<Seq<u8>>) -> bool;   // check_frame_lanes_valid
impl AlpideReadoutFrame {
    pub fn start_mem_pos(&self) -> (r: u64) ensures r == self.start { self.start }
    pub fn end_mem_pos(&self) -> (r: u64) ensures r == self.end { self.end }
    pub fn is_empty(&self) -> (r: bool) ensures r == self.empty { self.empty }
    pub fn from_layer(&self) -> (r: Layer) ensures r == self.layer { self.layer }
    #[verifier::external_body]
    pub fn check_frame_lanes_valid(&self, fatal_lanes: Option<&LaneList>) -> (r: Result<(), LaneMsg>)
        ensures r is Ok == lanes_valid(*self, match fatal_lanes { Some(l) => Some(l.v@), None => None })
    { unimplemented!() }
}
pub mod alpide {
    use vstd::prelude::*;
    use crate::*;
    #[verifier::external_body]
    pub fn check_alpide_data_frame(frame: &AlpideReadoutFrame, custom_checks: &'static Checks) -> (r: (LaneList, LaneMsgs, AlpideStats, Option<LaneList>))
        ensures r.1.n@ == frame_err_lanes(*frame), r.2.id == frame_stats(*frame),
            (match r.3 { Some(l) => Some(l.v@), None => None }) == frame_fatal(*frame)
    { unimplemented!() }
}

//@EXTRACT validator_struct

pub open spec fn opt_seq(o: Option<LaneList>) -> Option<Seq<u8>> { match o { Some(l) => Some(l.v@), None => None } }
/// the running fatal-lane list after a frame announced `new`
pub open spec fn fatal_after(cur: Option<Seq<u8>>, new: Option<Seq<u8>>) -> Option<Seq<u8>> {
    match new { None => cur, Some(n) => match cur { Some(c) => Some(c + n), None => Some(n) } }
}
impl ItsReadoutFrameValidator {
    /// `fatal_lanes.as_deref()` (Option<&[u8]> in the code)
    #[verifier::external_body]
    pub fn fatal_lanes(&self) -> (r: Option<&LaneList>) ensures (match r { Some(l) => Some(l.v@), None => None }) == opt_seq(self.fatal_lanes) { unimplemented!() }
//@EXTRACT add_fatal_lanes

//@EXTRACT process_frame
}

/// documented codes (README "Error codes": E7x data words / ALPIDE frames, even number = inner barrel, odd number = outer barrels):
/// lane-count / grouping rule E72 (IB) / E73 (ML, OL); lanes in error E74 (IB) / E75 (ML, OL); frame without data words E701
pub open spec fn lane_rule_code(l: Layer) -> u32 { if l == Layer::Inner { 72 } else { 73 } }
pub open spec fn lane_errors_code(l: Layer) -> u32 { if l == Layer::Inner { 74 } else { 75 } }
pub open spec fn empty_frame_code() -> u32 { 701 }
/// what a processed non-empty frame puts on the channel, in order
pub open spec fn expected_log(f: AlpideReadoutFrame, fatal_now: Option<Seq<u8>>, log: Seq<StatType>, base: int) -> bool {
    let a: int = if lanes_valid(f, fatal_now) { 0 } else { 1 };
    let c: int = if frame_err_lanes(f) > 0 { 1 } else { 0 };
    &&& log.len() == base + a + 1 + c
    &&& (a == 1 ==> (log[base] matches StatType::Error(m) && m.at == f.start && m.code == lane_rule_code(f.layer)))
    &&& (log[base + a] matches StatType::AlpideStats(s) && s.id == frame_stats(f))
    &&& (c == 1 ==> (log[base + a + 1] matches StatType::Error(m) && m.at == f.start && m.code == lane_errors_code(f.layer)))
}

} // verus!
impl core::fmt::Debug for SendErr { fn fmt(&self, _f: &mut core::fmt::Formatter<'_>) -> core::fmt::Result { Ok(()) } }
fn main() {}
