// Verus unit (C08, C05, C14): fastpasta::process (extracted): which threads a run consists of, and that all of them have
// ended when it returns. Thread creation, channels and joins are stand-ins that append to a ghost event log threaded
// through the calls (`world`); the control flow - the `if`, the `match` with its guards, the joins - is the code's.
//   * the reader is always started; the analysis thread exactly when a check or a view is requested; the writer exactly
//     when neither is requested, a filter is set and an output destination is configured - otherwise the data channel's
//     last receiver is dropped here;
//   * the analysis thread and the writer both read from the reader's channel, never both in one run;
//   * on Ok every thread started has been joined, after the scanner's statistics were forwarded (when there are any):
//     the writer has flushed (its drop ran) and every validator's statistics are complete before the report is made.
use vstd::prelude::*;
verus! {

#[derive(PartialEq, Eq, Structural, Clone, Copy)]
pub enum Ev { SpawnReader, SpawnAnalysis, SpawnWriter, DropDataRecv, Forward, JoinReader, JoinAnalysis, JoinWriter }
pub struct World { pub ev: Ghost<Seq<Ev>> }

pub struct CheckCmd;
pub struct ViewCmd;
pub struct PathId { pub id: int }
pub enum DataOutputMode { File(PathId), Stdout, None }
impl PartialEq for DataOutputMode {
    #[verifier::external_body]
    fn eq(&self, other: &DataOutputMode) -> (r: bool)
        ensures r == ((*self is None && *other is None) || (*self is Stdout && *other is Stdout) || (*self matches DataOutputMode::File(a) && *other matches DataOutputMode::File(b) && a.id == b.id))
    { unimplemented!() }
}
pub struct Cfg { pub chk: Option<CheckCmd>, pub vw: Option<ViewCmd>, pub filter: bool, pub out: DataOutputMode }
impl Cfg {
    #[verifier::external_body]
    pub fn check(&self) -> (r: Option<CheckCmd>) ensures r is Some == self.chk is Some { unimplemented!() }
    #[verifier::external_body]
    pub fn view(&self) -> (r: Option<ViewCmd>) ensures r is Some == self.vw is Some { unimplemented!() }
    #[verifier::external_body]
    pub fn filter_enabled(&self) -> (r: bool) ensures r == self.filter { unimplemented!() }
    #[verifier::external_body]
    pub fn output_mode(&self) -> (r: DataOutputMode) ensures (r is None) == (self.out is None) { unimplemented!() }
    // further options of the Config traits (so that a changed body using them stays checkable); their values are arbitrary
    #[verifier::external_body] pub fn custom_checks_enabled(&self) -> bool { unimplemented!() }
    #[verifier::external_body] pub fn mute_errors(&self) -> bool { unimplemented!() }
    #[verifier::external_body] pub fn skip_payload(&self) -> bool { unimplemented!() }
    #[verifier::external_body] pub fn disable_styled_views(&self) -> bool { unimplemented!() }
    #[verifier::external_body] pub fn max_tolerate_errors(&self) -> u32 { unimplemented!() }
    #[verifier::external_body] pub fn any_errors_exit_code(&self) -> Option<u8> { unimplemented!() }
    #[verifier::external_body] pub fn filter_link(&self) -> Option<u8> { unimplemented!() }
    #[verifier::external_body] pub fn filter_fee(&self) -> Option<u16> { unimplemented!() }
}
pub struct InputScanner;
pub struct StatType;
pub struct InputStatType;
pub struct StopFlag;
impl StopFlag {
    #[verifier::external_body]
    pub fn clone(&self) -> StopFlag { unimplemented!() }
}
pub mod io {
    pub struct Error;
    pub type Result<T> = core::result::Result<T, Error>;
}
pub struct JoinErr;
#[derive(PartialEq, Eq, Structural, Clone, Copy)]
pub enum Role { Reader, Analysis, Writer }
pub mod thread {
    use vstd::prelude::*;
    use crate::*;
    pub struct JoinHandle { pub role: Role }
    impl JoinHandle {
        #[verifier::external_body]
        pub fn join(self, world: &mut World) -> (r: Result<(), JoinErr>)
            ensures final(world).ev@ == old(world).ev@.push(match self.role { Role::Reader => Ev::JoinReader, Role::Analysis => Ev::JoinAnalysis, Role::Writer => Ev::JoinWriter }),
                self.role != Role::Analysis ==> r is Ok   // reader and writer threads do not panic (else the code's expect does)
        { unimplemented!() }
    }
}
pub mod flume {
    use vstd::prelude::*;
    pub struct Sender;
    impl Sender {
        #[verifier::external_body]
        pub fn clone(&self) -> Sender { unimplemented!() }
    }
    pub struct Receiver;
}
pub mod crossbeam_channel {
    use vstd::prelude::*;
    pub struct Receiver { pub id: int }
    impl Receiver {
        #[verifier::external_body]
        pub fn clone(&self) -> (r: Receiver) ensures r.id == self.id { unimplemented!() }
    }
}
pub mod alice_protocol_reader {
    use vstd::prelude::*;
    use crate::*;
    #[verifier::external_body]
    pub fn spawn_reader(world: &mut World, stop_flag: StopFlag, loader: InputScanner) -> (r: (thread::JoinHandle, crossbeam_channel::Receiver))
        ensures final(world).ev@ == old(world).ev@.push(Ev::SpawnReader), r.0.role == Role::Reader
    { unimplemented!() }
}
pub mod analyze { pub mod lib {
    use vstd::prelude::*;
    use crate::*;
    #[verifier::external_body]
    pub fn spawn_analysis(world: &mut World, config: &'static Cfg, stop_flag: StopFlag, stats_send: flume::Sender, data_recv: crossbeam_channel::Receiver) -> (r: io::Result<thread::JoinHandle>)
        ensures r matches Ok(h) ==> h.role == Role::Analysis && final(world).ev@ == old(world).ev@.push(Ev::SpawnAnalysis),
            r is Err ==> final(world).ev == old(world).ev
    { unimplemented!() }
} }
pub mod write { pub mod lib {
    use vstd::prelude::*;
    use crate::*;
    #[verifier::external_body]
    pub fn spawn_writer(world: &mut World, config: &'static Cfg, stop_flag: StopFlag, data_recv: crossbeam_channel::Receiver) -> (r: thread::JoinHandle)
        ensures r.role == Role::Writer, final(world).ev@ == old(world).ev@.push(Ev::SpawnWriter)
    { unimplemented!() }
} }
#[verifier::external_body]
pub fn drop(world: &mut World, r: crossbeam_channel::Receiver) ensures final(world).ev@ == old(world).ev@.push(Ev::DropDataRecv) { unimplemented!() }
/// forwards until the scanner's statistics channel is closed (unit v_forward)
#[verifier::external_body]
fn forward_input_stats_to_stats_collector(world: &mut World, input_stats_recv: &flume::Receiver, stats_send: &flume::Sender)
    ensures final(world).ev@ == old(world).ev@.push(Ev::Forward)
{ unimplemented!() }

pub open spec fn wants_analysis(c: &Cfg) -> bool { c.chk is Some || c.vw is Some }
pub open spec fn wants_writer(c: &Cfg) -> bool { c.chk is None && c.vw is None && c.filter && !(c.out is None) }
/// the events of a complete run, in order
pub open spec fn expected(c: &Cfg, have_input_stats: bool) -> Seq<Ev> {
    seq![Ev::SpawnReader]
        + (if wants_analysis(c) { seq![Ev::SpawnAnalysis] } else { Seq::empty() })
        + (if wants_writer(c) { seq![Ev::SpawnWriter] } else { seq![Ev::DropDataRecv] })
        + (if have_input_stats { seq![Ev::Forward] } else { Seq::empty() })
        + seq![Ev::JoinReader]
        + (if wants_analysis(c) { seq![Ev::JoinAnalysis] } else { Seq::empty() })
        + (if wants_writer(c) { seq![Ev::JoinWriter] } else { Seq::empty() })
}

//@EXTRACT process

} // verus!
impl core::fmt::Debug for JoinErr { fn fmt(&self, _f: &mut core::fmt::Formatter<'_>) -> core::fmt::Result { Ok(()) } }
fn main() {}
