// Verus unit (C14, C05): ItsStats (struct, record_layer_stave_seen, layer_staves_as_slice) and RdhStats::record_fee_observed
// (fastpasta/src/stats/stats_collector/{its_stats.rs, rdh_stats.rs}), extracted: the list of layer/stave pairs (FEE ids) seen
// holds every pair ever recorded exactly once, in order of first appearance - for any number of records.
use vstd::prelude::*;
verus! {
broadcast use vstd::seq_lib::group_seq_properties;

/// std Vec / slice lookups (used at (u8, u8) and u16, where `==` is equality of values)
pub assume_specification<T: PartialEq>[ <[T]>::contains ](s: &[T], x: &T) -> (r: bool) ensures r == s@.contains(*x);
/// std: binary_search is specified only for a slice sorted by `Ord`; what a generic contract can say without knowing the order is
/// what a hit means. A miss on a slice not known to be sorted says nothing about membership.
pub assume_specification<T: Ord>[ <[T]>::binary_search ](s: &[T], x: &T) -> (r: Result<usize, usize>)
    ensures r matches Ok(i) ==> i < s@.len(), r matches Err(i) ==> i <= s@.len();

//@EXTRACT its_stats_struct

impl ItsStats {
    pub open spec fn wf(&self) -> bool { self.layer_staves_seen@.no_duplicates() }
//@EXTRACT record_layer_stave_seen

//@EXTRACT layer_staves_as_slice
}

pub struct RdhStatsFees { pub fee_id: Vec<u16> }
impl RdhStatsFees {
//@EXTRACT record_fee_observed
}

} // verus!
fn main() {}
