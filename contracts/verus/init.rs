// Verus unit: init_processing (fastpasta/src/lib.rs, extracted verbatim; parameter types erased in the signature):
// how the run starts from the first 8 bytes of the input. An input shorter than an RDH0, an RDH0 failing the
// sanity check and an RDH version outside 3..=100 all end in Err (exit status 1) - never a panic - and in none of
// these cases is any processing started; an error of the processing itself is handed on.
use vstd::prelude::*;
verus! {

/// std::mem::drop: no effect on anything these contracts speak about
pub assume_specification<T>[ std::mem::drop ](_0: T) where T: std::marker::Destruct;

pub struct Msg;
impl Msg { pub fn into(self) -> (r: Msg) ensures r == self { self } }
#[verifier::external_body]
fn opaque_msg() -> Msg { unimplemented!() }

#[derive(PartialEq, Eq, Structural, Clone, Copy)]
pub enum ErrorKind { InvalidData, UnexpectedEof, Other }
pub mod io {
    use vstd::prelude::*;
    use crate::*;
    pub use crate::ErrorKind;
    pub struct Error { pub k: ErrorKind }
    impl Error {
        pub fn new(kind: ErrorKind, m: Msg) -> (r: Error) ensures r.k == kind { Error { k: kind } }
        pub fn kind(&self) -> (r: ErrorKind) ensures r == self.k { self.k }
        #[verifier::external_body] pub fn to_string(&self) -> (r: Msg) { unimplemented!() }
    }
    pub type Result<T> = core::result::Result<T, Error>;
}

/// the input: how many bytes it holds (only that matters here)
pub struct Reader { pub avail: Ghost<nat>, pub first_id: Ghost<u8>, pub first_sane: Ghost<bool> } // first_*: what the first 8 bytes decode to
pub struct Rdh0 { pub header_id: u8, pub sane: Ghost<bool> }
impl Rdh0 {
    /// SerdeRdh::load for the 8-byte RDH0: Err exactly when fewer than 8 bytes are left (read_exact; Kani full_load_eof for the 64-byte header)
    #[verifier::external_body]
    pub fn load(reader: &mut Reader) -> (r: io::Result<Rdh0>)
        ensures old(reader).avail@ < 8 ==> r is Err, old(reader).avail@ >= 8 ==> r is Ok,
            r matches Ok(h) ==> h.header_id == old(reader).first_id@ && h.sane@ == old(reader).first_sane@
    { unimplemented!() }
}
pub struct Rdh0Validator;
impl Rdh0Validator {
    pub fn default() -> Rdh0Validator { Rdh0Validator }
    /// Kani full_rdh_sanity_* (RDH0 part)
    #[verifier::external_body]
    pub fn sanity_check(&self, rdh0: &Rdh0) -> (r: Result<(), Msg>) ensures r.is_ok() == rdh0.sane@ { unimplemented!() }
}

pub enum StatType { RdhVersion(u8), Fatal(Msg) }
pub enum InputStatType { Other }
pub struct SendErr;
pub mod flume {
    use vstd::prelude::*;
    use crate::*;
    pub struct Sender<T> { pub t: core::marker::PhantomData<T> }
    pub struct Receiver<T> { pub t: core::marker::PhantomData<T> }
    impl<T> Sender<T> {
        #[verifier::external_body] pub fn send(&self, x: T) -> (r: Result<(), SendErr>) ensures r.is_ok() { unimplemented!() }
    }
    #[verifier::external_body]
    pub fn unbounded<T>() -> (r: (Sender<T>, Receiver<T>)) { unimplemented!() }
}

pub struct Cfg;
pub struct PathRef;
impl Cfg {
    #[verifier::external_body] pub fn global() -> (r: &'static Cfg) { unimplemented!() }
    #[verifier::external_body] pub fn input_file(&self) -> (r: Option<PathRef>) { unimplemented!() }
}
pub uninterp spec fn input_opens() -> bool;                 // the input file exists and can be opened / stdin is used
pub uninterp spec fn input_view() -> (nat, u8, bool);       // (bytes available, first header id, first RDH0 sane)
/// alice_protocol_reader::init_reader: opens the input (file or stdin)
#[verifier::external_body]
pub fn init_reader(p: Option<PathRef>) -> (r: io::Result<Reader>)
    ensures r is Ok == input_opens(), r matches Ok(rd) ==> (rd.avail@, rd.first_id@, rd.first_sane@) == input_view()
{ unimplemented!() }
pub struct StopFlag;
pub struct RdhCru;
pub struct InputScanner { pub version: u8 }
impl InputScanner {
    #[verifier::external_body]
    pub fn new_from_rdh0(config: &'static Cfg, reader: Reader, stats: Option<flume::Sender<InputStatType>>, rdh0: Rdh0) -> (r: InputScanner)
        ensures r.version == rdh0.header_id
    { unimplemented!() }
}
pub uninterp spec fn process_fails(version: u8) -> bool;
/// the whole processing pipeline (threads): OBLIGATION - only ever started for a recognised RDH version
#[verifier::external_body]
pub fn process<T, const CAP: usize>(config: &'static Cfg, loader: InputScanner, input_stats_recv: Option<&flume::Receiver<InputStatType>>,
    stats_send: &flume::Sender<StatType>, stop_flag: StopFlag) -> (r: io::Result<()>)
    requires 3 <= loader.version <= 100, // [C16][C04] processing is only started for an RDH version in 3..=100
    ensures r is Err == process_fails(loader.version)
{ unimplemented!() }

//@EXTRACT init_processing

/// init::run, the statement computing the exit code (before the any-errors adjustment of util::lib::exit: Kani full_exit_code)
fn site_exit_code(stat_send_chan: flume::Sender<StatType>, stop_flag: StopFlag) -> (exit_code: u8)
    ensures
        exit_code == 0 || exit_code == 1,
        !input_opens() ==> exit_code == 1, // [C16] unreadable input: non-zero
        input_opens() && input_view().0 < 8 ==> exit_code == 1, // [C16][C18] input shorter than an RDH0: non-zero, no panic
        input_opens() && input_view().0 >= 8 && (!input_view().2 || !(3 <= input_view().1 <= 100)) ==> exit_code == 1, // [C16] unrecognisable input: non-zero
        input_opens() && input_view().0 >= 8 && input_view().2 && 3 <= input_view().1 <= 100 ==> (exit_code == 1) == process_fails(input_view().1), // [C16] otherwise 0 unless the processing fails
{
//@EXTRACT exit_code_block
    exit_code
}

} // verus!
impl core::fmt::Debug for io::Error { fn fmt(&self, _f: &mut core::fmt::Formatter<'_>) -> core::fmt::Result { Ok(()) } }
impl core::fmt::Debug for SendErr { fn fmt(&self, _f: &mut core::fmt::Formatter<'_>) -> core::fmt::Result { Ok(()) } }
fn main() {}
