// Verus unit (C14): fastpasta::stats::stats_report::{make_report, add_global_stats_to_report, add_filtered_stats,
// add_alpide_stats_to_report, add_detected_attributes_to_report} (extracted): which collector value is shown under
// which label of the end-of-run report, in which section and order.
// A report cell is abstracted to a value `Val`: a label (string literal, kept as an identity by the lit rule), a number,
// the formatting of a list / summary by one of the helper functions (opaque, identified by helper and arguments), or a
// token list (format!). Colour, padding width and table layout are not covered.
use vstd::prelude::*;
verus! {

pub enum Val { Lit(u64), Num(int), Text(int), Fmt(int, Seq<int>), Toks(Seq<Val>), Empty }

/// String stand-in
pub struct String { pub v: Ghost<Val> }
impl String {
    #[verifier::external_body]
    pub fn len(&self) -> usize { unimplemented!() }
}
/// std::option::Option::is_some_and (not specified in vstd)
#[verifier::allow(undeclared_external_trait)]
pub assume_specification<T, F: FnOnce(T) -> bool>[ Option::<T>::is_some_and ](o: Option<T>, f: F) -> (r: bool)
    where F: core::marker::Destruct
    requires o matches Some(x) ==> f.requires((x,)),
    ensures o is None ==> !r, o matches Some(x) ==> f.ensures((x,), r);
pub struct LitS { pub h: u64 }
pub fn lit(h: u64) -> (r: LitS) ensures r.h == h { LitS { h } }
impl LitS {
    #[verifier::external_body]
    pub fn to_text(&self) -> (r: String) ensures r.v@ == Val::Lit(self.h) { unimplemented!() }
    pub fn green(self) -> (r: LitS) ensures r.h == self.h { self }
    pub fn red(self) -> (r: LitS) ensures r.h == self.h { self }
}
/// numbers: to_string and the colour wrappers keep the value
pub struct Colored { pub n: int }
impl Colored {
    #[verifier::external_body]
    pub fn to_text(&self) -> (r: String) ensures r.v@ == Val::Num(self.n) { unimplemented!() }
}
pub trait NumText: Sized {
    spec fn n(&self) -> int;
    fn to_text(&self) -> (r: String) ensures r.v@ == Val::Num(self.n());
    fn green(self) -> (r: Colored) ensures r.n == self.n();
    fn red(self) -> (r: Colored) ensures r.n == self.n();
}
impl NumText for u64 {
    open spec fn n(&self) -> int { *self as int }
    #[verifier::external_body] fn to_text(&self) -> (r: String) { unimplemented!() }
    #[verifier::external_body] fn green(self) -> (r: Colored) { unimplemented!() }
    #[verifier::external_body] fn red(self) -> (r: Colored) { unimplemented!() }
}
impl NumText for u32 {
    open spec fn n(&self) -> int { *self as int }
    #[verifier::external_body] fn to_text(&self) -> (r: String) { unimplemented!() }
    #[verifier::external_body] fn green(self) -> (r: Colored) { unimplemented!() }
    #[verifier::external_body] fn red(self) -> (r: Colored) { unimplemented!() }
}
impl NumText for u8 {
    open spec fn n(&self) -> int { *self as int }
    #[verifier::external_body] fn to_text(&self) -> (r: String) { unimplemented!() }
    #[verifier::external_body] fn green(self) -> (r: Colored) { unimplemented!() }
    #[verifier::external_body] fn red(self) -> (r: Colored) { unimplemented!() }
}
/// format!(..) -> token list of its arguments (row rule)
pub trait AsTok { spec fn tok(&self) -> Val; }
impl AsTok for u32 { open spec fn tok(&self) -> Val { Val::Num(*self as int) } }
impl AsTok for u64 { open spec fn tok(&self) -> Val { Val::Num(*self as int) } }
pub struct TokList { pub t: Ghost<Seq<Val>> }
#[verifier::external_body]
pub fn tok_nil() -> (r: String) ensures r.v@ == Val::Toks(Seq::empty()) { unimplemented!() }
#[verifier::external_body]
pub fn tok_cons<A: AsTok>(a: &A, rest: String) -> (r: String)
    ensures rest.v@ matches Val::Toks(s) ==> r.v@ == Val::Toks(seq![a.tok()] + s)
{ unimplemented!() }

pub struct Duration;
#[derive(PartialEq, Eq, Structural, Clone, Copy)]
pub enum SystemId { ITS, Other }
impl SystemId {
    #[verifier::external_body]
    pub fn to_text(&self) -> (r: String) ensures r.v@ == Val::Text(if *self == SystemId::ITS { 1 } else { 2 }) { unimplemented!() }
}
#[derive(Clone, Copy)]
pub enum FilterTarget { Link(u8), Fee(u16), ItsLayerStave(u16) }

// ---- the statistics the report is made from
pub struct BoxStr { pub id: int }
impl BoxStr {
    #[verifier::external_body]
    pub fn into_string(self) -> (r: String) ensures r.v@ == Val::Text(self.id) { unimplemented!() }
}
pub struct ReadoutFlags { pub trailers: u64, pub busy_v: u64, pub overrun: u64, pub fatal: u64, pub flushed: u64, pub strobe: u64, pub busy_t: u64 }
impl ReadoutFlags {
    pub fn chip_trailers_seen(&self) -> (r: u64) ensures r == self.trailers { self.trailers }
    pub fn busy_violations(&self) -> (r: u64) ensures r == self.busy_v { self.busy_v }
    pub fn data_overrun(&self) -> (r: u64) ensures r == self.overrun { self.overrun }
    pub fn transmission_in_fatal(&self) -> (r: u64) ensures r == self.fatal { self.fatal }
    pub fn flushed_incomplete(&self) -> (r: u64) ensures r == self.flushed { self.flushed }
    pub fn strobe_extended(&self) -> (r: u64) ensures r == self.strobe { self.strobe }
    pub fn busy_transitions(&self) -> (r: u64) ensures r == self.busy_t { self.busy_t }
}
pub struct AlpideStats { pub flags: ReadoutFlags }
impl AlpideStats {
    pub fn readout_flags(&self) -> (r: &ReadoutFlags) ensures *r == self.flags { &self.flags }
}
pub struct RdhStats {
    pub rdhs_seen: u64, pub rdhs_filtered: u64, pub payload_size: u64, pub hbfs_seen: u32,
    pub links: Vec<u8>, pub fee_ids: Vec<u16>, pub layer_staves: Vec<(u8, u8)>,
    pub run_trigger_type: (u32, int), pub rdh_version: u8, pub data_format: u8, pub system_id: Option<SystemId>,
}
impl RdhStats {
    #[verifier::external_body] pub fn run_trigger_type(&self) -> (r: (u32, BoxStr)) ensures r.0 == self.run_trigger_type.0, r.1.id == self.run_trigger_type.1 { unimplemented!() }
    pub fn rdhs_seen(&self) -> (r: u64) ensures r == self.rdhs_seen { self.rdhs_seen }
    pub fn rdhs_filtered(&self) -> (r: u64) ensures r == self.rdhs_filtered { self.rdhs_filtered }
    pub fn payload_size(&self) -> (r: u64) ensures r == self.payload_size { self.payload_size }
    pub fn hbfs_seen(&self) -> (r: u32) ensures r == self.hbfs_seen { self.hbfs_seen }
    #[verifier::external_body] pub fn links_as_slice(&self) -> (r: &[u8]) ensures r@ == self.links@ { unimplemented!() }
    #[verifier::external_body] pub fn fee_ids_as_slice(&self) -> (r: &[u16]) ensures r@ == self.fee_ids@ { unimplemented!() }
    #[verifier::external_body] pub fn layer_staves_as_slice(&self) -> (r: &[(u8, u8)]) ensures r@ == self.layer_staves@ { unimplemented!() }
    pub fn rdh_version(&self) -> (r: u8) ensures r == self.rdh_version { self.rdh_version }
    pub fn data_format(&self) -> (r: u8) ensures r == self.data_format { self.data_format }
    pub fn system_id(&self) -> (r: Option<SystemId>) ensures r == self.system_id { self.system_id }
}
pub struct StatsCollector {
    pub rdh: RdhStats, pub err_count: u64, pub codes: Vec<String>, pub fatal: Option<int>,
    pub staves_with_errors: Option<Vec<(u8, u8)>>, pub alpide: Option<AlpideStats>, pub is_finalized: bool,
}
impl StatsCollector {
    pub fn rdh_stats(&self) -> (r: &RdhStats) ensures *r == self.rdh { &self.rdh }
    pub fn rdhs_seen(&self) -> (r: u64) ensures r == self.rdh.rdhs_seen { self.rdh.rdhs_seen }
    pub fn payload_size(&self) -> (r: u64) ensures r == self.rdh.payload_size { self.rdh.payload_size }
    pub fn hbfs_seen(&self) -> (r: u32) ensures r == self.rdh.hbfs_seen { self.rdh.hbfs_seen }
    pub fn system_id(&self) -> (r: Option<SystemId>) ensures r == self.rdh.system_id { self.rdh.system_id }
    #[verifier::external_body] pub fn layer_staves_as_slice(&self) -> (r: &[(u8, u8)]) ensures r@ == self.rdh.layer_staves@ { unimplemented!() }
    pub fn err_count(&self) -> (r: u64) ensures r == self.err_count { self.err_count }
    pub fn any_fatal_err(&self) -> (r: bool) ensures r == self.fatal is Some { self.fatal.is_some() }
    #[verifier::external_body] pub fn fatal_err(&self) -> (r: FatalStr) requires self.fatal is Some ensures r.id == self.fatal.unwrap() { unimplemented!() }
    #[verifier::external_body] pub fn unique_error_codes_as_slice(&self) -> (r: &[String]) ensures r@ == self.codes@ { unimplemented!() }
    #[verifier::external_body] pub fn staves_with_errors_as_slice(&self) -> (r: Option<&[(u8, u8)]>)
        ensures opt_pairs(r) == opt_vec(self.staves_with_errors) { unimplemented!() }
    pub fn alpide_stats(&self) -> (r: Option<&AlpideStats>) ensures r is Some == self.alpide is Some, r matches Some(a) ==> *a == self.alpide.unwrap() { self.alpide.as_ref() }
}
pub struct FatalStr { pub id: int }
impl FatalStr {
    #[verifier::external_body] pub fn to_owned(&self) -> (r: String) ensures r.v@ == Val::Text(self.id) { unimplemented!() }
}

// ---- formatting / summarising helpers (stat_format_utils, stat_summerize_utils: not verified): identified by helper and arguments
pub uninterp spec fn h_seq8(s: Seq<u8>) -> int;
pub uninterp spec fn h_seq16(s: Seq<u16>) -> int;
pub uninterp spec fn h_pairs(s: Seq<(u8, u8)>) -> int;
pub uninterp spec fn h_opt_pairs(s: Option<Seq<(u8, u8)>>) -> int;
pub uninterp spec fn h_codes(s: Seq<String>) -> int;
#[verifier::external_body]
pub fn format_error_codes(error_codes: &[String]) -> (r: String) ensures r.v@ == Val::Fmt(1, seq![h_codes(error_codes@)]) { unimplemented!() }
#[verifier::external_body]
pub fn format_links_observed(links_observed: &[u8]) -> (r: String) ensures r.v@ == Val::Fmt(2, seq![h_seq8(links_observed@)]) { unimplemented!() }
#[verifier::external_body]
pub fn format_fee_ids(fee_ids_seen: &[u16]) -> (r: String) ensures r.v@ == Val::Fmt(3, seq![h_seq16(fee_ids_seen@)]) { unimplemented!() }
pub open spec fn opt_pairs(s: Option<&[(u8, u8)]>) -> Option<Seq<(u8, u8)>> { match s { Some(x) => Some(x@), None => None } }
pub open spec fn opt_vec(s: Option<Vec<(u8, u8)>>) -> Option<Seq<(u8, u8)>> { match s { Some(x) => Some(x@), None => None } }
#[verifier::external_body]
pub fn summerize_layers_staves_seen(layers_staves_seen: &[(u8, u8)], staves_with_errors: Option<&[(u8, u8)]>) -> (r: StatSummary)
    ensures r.kind() == Val::Fmt(4, seq![h_pairs(layers_staves_seen@), h_opt_pairs(opt_pairs(staves_with_errors))]) { unimplemented!() }
#[verifier::external_body]
pub fn summerize_data_size(rdh_count: u64, payload_size: u64) -> (r: StatSummary)
    ensures r.kind() == Val::Fmt(5, seq![rdh_count as int, payload_size as int]) { unimplemented!() }
#[verifier::external_body]
pub fn summerize_filtered_links(link_to_filter: u8, links_observed: &[u8]) -> (r: StatSummary)
    ensures r.kind() == Val::Fmt(6, seq![link_to_filter as int, h_seq8(links_observed@)]) { unimplemented!() }
#[verifier::external_body]
pub fn summerize_filtered_fee_ids(fee_id: u16, fee_ids_seen: &[u16]) -> (r: StatSummary)
    ensures r.kind() == Val::Fmt(7, seq![fee_id as int, h_seq16(fee_ids_seen@)]) { unimplemented!() }
#[verifier::external_body]
pub fn summerize_filtered_its_layer_staves(fee_id_no_link: u16, layers_staves_seen: &[(u8, u8)]) -> (r: StatSummary)
    ensures r.kind() == Val::Fmt(8, seq![fee_id_no_link as int, h_pairs(layers_staves_seen@)]) { unimplemented!() }

// ---- report rows
//@EXTRACT stat_summary_struct
impl StatSummary {
    /// a summary produced by a helper is identified as a whole; a row built here by its three cells
    pub open spec fn kind(&self) -> Val { self.statistic.v@ }
    pub open spec fn is_row(&self, label: u64, value: Val) -> bool { self.statistic.v@ == Val::Lit(label) && self.value.v@ == value }
//@EXTRACT stat_summary_new
}
pub mod tabled {
    use vstd::prelude::*;
    use crate::*;
    pub struct Table { pub rows: Ghost<Seq<StatSummary>> }
    impl Table {
        #[verifier::external_body]
        pub fn new(v: Vec<StatSummary>) -> (r: Table) ensures r.rows@ == v@ { unimplemented!() }
    }
}
pub struct Report {
    pub stats: Ghost<Seq<StatSummary>>, pub attrs: Ghost<Seq<(Val, Val)>>, pub fatal: Ghost<Option<Val>>,
    pub filter_table: Ghost<Option<Seq<StatSummary>>>, pub alpide_table: Ghost<Option<Seq<StatSummary>>>,
}
impl Report {
    #[verifier::external_body]
    pub fn new(processing_time: Duration) -> (r: Report)
        ensures r.stats@.len() == 0, r.attrs@.len() == 0, r.fatal@ is None, r.filter_table@ is None, r.alpide_table@ is None { unimplemented!() }
    #[verifier::external_body]
    pub fn add_stat(&mut self, stat: StatSummary)
        ensures final(self).stats@ == old(self).stats@.push(stat), final(self).attrs == old(self).attrs, final(self).fatal == old(self).fatal, final(self).filter_table == old(self).filter_table, final(self).alpide_table == old(self).alpide_table { unimplemented!() }
    #[verifier::external_body]
    pub fn add_detected_attribute(&mut self, attribute: String, detected: String)
        ensures final(self).attrs@ == old(self).attrs@.push((attribute.v@, detected.v@)), final(self).stats == old(self).stats, final(self).fatal == old(self).fatal, final(self).filter_table == old(self).filter_table, final(self).alpide_table == old(self).alpide_table { unimplemented!() }
    #[verifier::external_body]
    pub fn add_fatal_error(&mut self, error: String)
        ensures final(self).fatal@ == Some(error.v@), final(self).stats == old(self).stats, final(self).attrs == old(self).attrs, final(self).filter_table == old(self).filter_table, final(self).alpide_table == old(self).alpide_table { unimplemented!() }
    #[verifier::external_body]
    pub fn add_filter_stats(&mut self, t: tabled::Table)
        ensures final(self).filter_table@ == Some(t.rows@), final(self).stats == old(self).stats, final(self).attrs == old(self).attrs, final(self).fatal == old(self).fatal, final(self).alpide_table == old(self).alpide_table { unimplemented!() }
    #[verifier::external_body]
    pub fn add_alpide_stats(&mut self, t: tabled::Table)
        ensures final(self).alpide_table@ == Some(t.rows@), final(self).stats == old(self).stats, final(self).attrs == old(self).attrs, final(self).fatal == old(self).fatal, final(self).filter_table == old(self).filter_table { unimplemented!() }
}

// ---- expected content (from the property statement: each value under its own label)
pub open spec fn global_rows_ok(rows: Seq<StatSummary>, base: int, st: &StatsCollector) -> bool {
    &&& rows.len() >= base + 5
    &&& rows[base].is_row(@LIT(Total Errors)@, Val::Num(st.err_count as int))
    &&& (st.err_count > 0 ==> rows[base].notes.v@ == Val::Fmt(1, seq![h_codes(st.codes@)]))
    &&& rows[base + 1].is_row(@LIT(Run Trigger Type)@, Val::Toks(seq![Val::Num(st.rdh.run_trigger_type.0 as int)])) && rows[base + 1].notes.v@ == Val::Text(st.rdh.run_trigger_type.1)
    &&& rows[base + 2].is_row(@LIT(Total RDHs)@, Val::Num(st.rdh.rdhs_seen as int))
    &&& rows[base + 3].is_row(@LIT(Links observed)@, Val::Fmt(2, seq![h_seq8(st.rdh.links@)]))
    &&& rows[base + 4].is_row(@LIT(FEE IDs seen)@, Val::Fmt(3, seq![h_seq16(st.rdh.fee_ids@)]))
}
pub open spec fn staves_row(st: &StatsCollector) -> Val {
    Val::Fmt(4, seq![h_pairs(st.rdh.layer_staves@), h_opt_pairs(opt_vec(st.staves_with_errors))])
}
pub open spec fn filtered_rows_ok(rows: Seq<StatSummary>, st: &StatsCollector, ft: Option<FilterTarget>) -> bool {
    let with_staves = ft is Some && !(ft.unwrap() is ItsLayerStave) && st.rdh.system_id == Some(SystemId::ITS);
    &&& rows.len() == 3 + (if ft is Some { 1int } else { 0int }) + (if with_staves { 1int } else { 0int })
    &&& rows[0].is_row(@LIT(RDHs)@, Val::Num(st.rdh.rdhs_filtered as int))
    &&& rows[1].is_row(@LIT(HBFs)@, Val::Num(st.rdh.hbfs_seen as int))
    &&& rows[2].kind() == Val::Fmt(5, seq![st.rdh.rdhs_filtered as int, st.rdh.payload_size as int])
    &&& (ft matches Some(FilterTarget::Link(l)) ==> rows[3].kind() == Val::Fmt(6, seq![l as int, h_seq8(st.rdh.links@)]))
    &&& (ft matches Some(FilterTarget::Fee(f)) ==> rows[3].kind() == Val::Fmt(7, seq![f as int, h_seq16(st.rdh.fee_ids@)]))
    &&& (ft matches Some(FilterTarget::ItsLayerStave(f)) ==> rows[3].kind() == Val::Fmt(8, seq![f as int, h_pairs(st.rdh.layer_staves@)]))
    &&& (with_staves ==> rows[4].kind() == staves_row(st))
}
pub open spec fn alpide_rows_ok(rows: Seq<StatSummary>, f: ReadoutFlags) -> bool {
    &&& rows.len() == 7
    &&& rows[0].is_row(@LIT(Chip Trailers seen)@, Val::Num(f.trailers as int))
    &&& rows[1].is_row(@LIT(Busy Violations)@, Val::Toks(seq![Val::Num(f.busy_v as int)]))
    &&& rows[2].is_row(@LIT(Data Overrun)@, Val::Toks(seq![Val::Num(f.overrun as int)]))
    &&& rows[3].is_row(@LIT(Transmission in Fatal)@, Val::Toks(seq![Val::Num(f.fatal as int)]))
    &&& rows[4].is_row(@LIT(Flushed Incomplete)@, Val::Toks(seq![Val::Num(f.flushed as int)]))
    &&& rows[5].is_row(@LIT(Strobe Extended)@, Val::Toks(seq![Val::Num(f.strobe as int)]))
    &&& rows[6].is_row(@LIT(Busy Transitions)@, Val::Toks(seq![Val::Num(f.busy_t as int)]))
}
pub open spec fn attrs_ok(attrs: Seq<(Val, Val)>, base: int, r: &RdhStats) -> bool {
    &&& attrs.len() == base + 3
    &&& attrs[base] == (Val::Lit(@LIT(RDH Version)@), Val::Num(r.rdh_version as int))
    &&& attrs[base + 1] == (Val::Lit(@LIT(Data Format)@), Val::Num(r.data_format as int))
    &&& attrs[base + 2].0 == Val::Lit(@LIT(System ID)@)
    &&& (r.system_id matches Some(s) ==> attrs[base + 2].1 == Val::Text(if s == SystemId::ITS { 1 } else { 2 }))
    &&& (r.system_id is None ==> attrs[base + 2].1 == Val::Lit(@LIT(none)@))
}

//@EXTRACT make_report

//@EXTRACT add_global_stats_to_report

//@EXTRACT add_filtered_stats

//@EXTRACT add_alpide_stats_to_report

//@EXTRACT add_detected_attributes_to_report

} // verus!
fn main() {}
