// Verus unit: the RDH row of the ITS readout-frame views (`print_rdh_its_readout_frame_view`, extracted verbatim; rule
// `row_rule`): the row shows the packet's offset, RDH version, stop bit, stave (from the FEE id), trigger description
// (from the trigger type), link id, lane status (from the detector field), orbit and bunch crossing - each from the
// RDH's own field - and the styled and unstyled rows carry the same content.
use vstd::prelude::*;
verus! {

pub enum Leaf { Num(int), Attr(int, int) }   // Attr(kind, value it is decoded from)
pub enum L { Nil, Cons(Leaf, Box<L>) }
pub open spec fn app(a: L, b: L) -> L decreases a {
    match a { L::Nil => b, L::Cons(h, t) => L::Cons(h, Box::new(app(*t, b))) }
}
pub open spec fn cons(a: Leaf, t: L) -> L { L::Cons(a, Box::new(t)) }
pub open spec fn num(x: int) -> L { cons(Leaf::Num(x), L::Nil) }
pub trait AsTok { spec fn tok(&self) -> L; }
pub struct Token { pub l: Ghost<L> }
impl AsTok for Token { open spec fn tok(&self) -> L { self.l@ } }
impl AsTok for u8 { open spec fn tok(&self) -> L { num(*self as int) } }
impl AsTok for u16 { open spec fn tok(&self) -> L { num(*self as int) } }
impl AsTok for u32 { open spec fn tok(&self) -> L { num(*self as int) } }
impl AsTok for u64 { open spec fn tok(&self) -> L { num(*self as int) } }
impl<T: AsTok> AsTok for &T { open spec fn tok(&self) -> L { (**self).tok() } }
impl Token {
    pub fn white(self) -> (r: Token) ensures r.l@ == self.l@ { self }
    pub fn bold(self) -> (r: Token) ensures r.l@ == self.l@ { self }
    pub fn bg_rgb<const R: u8, const G: u8, const B: u8>(self) -> (r: Token) ensures r.l@ == self.l@ { self }
}
#[verifier::external_body] pub fn tok_nil() -> (r: Token) ensures r.l@ == L::Nil { unimplemented!() }
#[verifier::external_body] pub fn tok_missing() -> (r: Token) ensures r.l@ == L::Nil { unimplemented!() }
#[verifier::external_body] pub fn tok_cons<T: AsTok>(p: &T, rest: Token) -> (r: Token) ensures r.l@ == app(p.tok(), rest.l@) { unimplemented!() }

pub struct IoErr;
pub mod io { pub use crate::IoErr as Error; }
pub struct StdoutLock { pub rows: Ghost<Seq<L>> }
#[verifier::external_body]
pub fn emit_row(w: &mut StdoutLock, row: Token) -> (r: Result<(), IoErr>)
    ensures r.is_ok() ==> final(w).rows@ == old(w).rows@.push(row.l@), r.is_err() ==> final(w).rows@ == old(w).rows@
{ unimplemented!() }
pub const RDH_RED: u8 = 50;

pub struct Rdh1 { pub orbit: u32, pub bcv: u16 }
impl Rdh1 { pub fn bc(&self) -> (r: u16) ensures r == self.bcv { self.bcv } }
/// the RDH as seen through the RDH trait accessors (their decoding: Kani full_rdh_decode)
pub struct RdhT { pub ver: u8, pub stop: u8, pub fee: u16, pub link: u8, pub tt: u32, pub det: u32, pub r1: Rdh1 }
impl RdhT {
    pub fn version(&self) -> (r: u8) ensures r == self.ver { self.ver }
    pub fn stop_bit(&self) -> (r: u8) ensures r == self.stop { self.stop }
    pub fn fee_id(&self) -> (r: u16) ensures r == self.fee { self.fee }
    pub fn link_id(&self) -> (r: u8) ensures r == self.link { self.link }
    pub fn rdh1(&self) -> (r: &Rdh1) ensures *r == self.r1 { &self.r1 }
}
pub mod words { pub mod its {
    use vstd::prelude::*;
    use crate::*;
    /// layer / stave of a FEE id (Kani full_stave_from_feeid)
    pub struct Stave { pub fee: u16 }
    impl Stave { pub fn from_feeid(fee: u16) -> (r: Stave) ensures r.fee == fee { Stave { fee } } }
    impl AsTok for Stave { open spec fn tok(&self) -> L { cons(Leaf::Attr(1, self.fee as int), L::Nil) } }
} }
pub mod view {
    pub mod lib {
        use vstd::prelude::*;
        use crate::*;
        /// Kani full_view_trigger_strings
        #[verifier::external_body] pub fn rdh_trigger_type_as_string(rdh: &RdhT) -> (r: Token) ensures r.l@ == cons(Leaf::Attr(2, rdh.tt as int), L::Nil) { unimplemented!() }
        /// Kani full_sw_util_lane_status (detector field)
        #[verifier::external_body] pub fn rdh_detector_field_lane_status_as_string(rdh: &RdhT) -> (r: Token) ensures r.l@ == cons(Leaf::Attr(3, rdh.det as int), L::Nil) { unimplemented!() }
    }
    pub mod its_readout_frame {
        use vstd::prelude::*;
        use crate::*;
        /// documented content of the RDH row
        pub open spec fn rdh_row(rdh: &RdhT, pos: u64) -> L {
            cons(Leaf::Num(pos as int), cons(Leaf::Num(rdh.ver as int), cons(Leaf::Num(rdh.stop as int), cons(Leaf::Attr(1, rdh.fee as int),
                cons(Leaf::Attr(2, rdh.tt as int), cons(Leaf::Num(rdh.link as int), cons(Leaf::Attr(3, rdh.det as int),
                cons(Leaf::Num(rdh.r1.orbit as int), cons(Leaf::Num(rdh.r1.bcv as int), L::Nil)))))))))
        }
//@EXTRACT rdh_frame_row
    }
}

} // verus!
fn main() {}
