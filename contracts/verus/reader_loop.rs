// Verus unit: the loop of the reader thread (alice_protocol_reader::spawn_reader, statement fragment inside the
// thread closure, extracted verbatim) against the contract of get_array_batch (unit v_batch): the batches handed
// to the analysis thread are, in order, consecutive runs of the packets the scanner can load - nothing is lost,
// duplicated or reordered - and unless it is stopped (stop flag, receiver gone) the loop ends only when the input
// is exhausted, i.e. every loadable packet has been handed on.
use vstd::prelude::*;
verus! {

pub mod defs {
    use vstd::prelude::*;
    pub struct Pkt { pub id: int }
    pub open spec fn flat(bs: Seq<Seq<Pkt>>) -> Seq<Pkt> decreases bs.len() {
    if bs.len() == 0 { Seq::empty() } else { flat(bs.drop_last()) + bs.last() }
}
    pub broadcast proof fn lemma_flat_push(bs: Seq<Seq<Pkt>>, b: Seq<Pkt>)
    ensures #[trigger] flat(bs.push(b)) =~= flat(bs) + b
{
    assert(bs.push(b).drop_last() =~= bs);
    assert(bs.push(b).last() == b);
}
}
pub use defs::{Pkt, flat};

#[derive(PartialEq, Eq, Structural, Clone, Copy)]
pub enum Ordering { SeqCst }
/// the shared stop flag: another thread may set it at any time, a load returns an arbitrary value
pub struct StopFlag { pub seen: Ghost<bool> }   // seen: some load returned true
impl StopFlag {
    #[verifier::external_body]
    pub fn load(&mut self, o: Ordering) -> (r: bool) ensures final(self).seen@ == (old(self).seen@ || r) { unimplemented!() }
}

/// the scanner over its (ghost) sequence of loadable packets: after `src.len()` packets every load fails
pub struct InputScanner { pub src: Ghost<Seq<Pkt>>, pub pos: Ghost<int> }
pub struct CdpArray<T, const CAP: usize> { pub items: Ghost<Seq<Pkt>>, pub t: core::marker::PhantomData<T> }
impl<T, const CAP: usize> CdpArray<T, CAP> {
    #[verifier::external_body] pub fn len(&self) -> (r: usize) ensures r == self.items@.len() { unimplemented!() }
}
pub struct IoError;
/// contract of get_array_batch as proved in unit v_batch (+ load_cdp: v_scanner): the longest run of loadable
/// packets up to CAP, in order; Err only when not a single packet could be loaded
#[verifier::external_body]
pub fn get_array_batch<T, const CAP: usize>(file_scanner: &mut InputScanner) -> (r: Result<CdpArray<T, CAP>, IoError>)
    requires 0 <= old(file_scanner).pos@ <= old(file_scanner).src@.len(), CAP >= 1,
    ensures
        final(file_scanner).src == old(file_scanner).src,
        r matches Ok(b) ==> {
            &&& b.items@.len() >= 1 && b.items@.len() <= CAP
            &&& final(file_scanner).pos@ == old(file_scanner).pos@ + b.items@.len()
            &&& final(file_scanner).pos@ <= old(file_scanner).src@.len()
            &&& b.items@ =~= old(file_scanner).src@.subrange(old(file_scanner).pos@, final(file_scanner).pos@)
            &&& (b.items@.len() < CAP ==> final(file_scanner).pos@ == old(file_scanner).src@.len())
        },
        r is Err ==> final(file_scanner).pos@ == old(file_scanner).pos@ && old(file_scanner).pos@ == old(file_scanner).src@.len(),
{ unimplemented!() }

pub struct SendErr;
/// bounded crossbeam channel to the analysis thread: ghost log of the batches accepted; an Err means the receiver is gone
pub struct Chan { pub sent: Ghost<Seq<Seq<Pkt>>>, pub closed: Ghost<bool> }
impl Chan {
    #[verifier::external_body]
    pub fn send<T, const CAP: usize>(&mut self, b: CdpArray<T, CAP>) -> (r: Result<(), SendErr>)
        ensures r is Ok ==> final(self).sent@ == old(self).sent@.push(b.items@) && final(self).closed == old(self).closed,
            r is Err ==> final(self).sent == old(self).sent && final(self).closed@,
    { unimplemented!() }
}
broadcast use defs::lemma_flat_push;

fn site_reader_loop<T, const CAP: usize>(stop_flag: &mut StopFlag, mut input_scanner: InputScanner, send_chan: &mut Chan, mut local_stop_on_non_full_batch: bool)
    -> (res: InputScanner)   // the scanner at loop exit
    requires CAP >= 1, input_scanner.pos@ == 0, old(send_chan).sent@.len() == 0, !local_stop_on_non_full_batch, !old(send_chan).closed@, !old(stop_flag).seen@,
    ensures
        res.src == input_scanner.src,
        // [C03][C18][C08] what was handed on is exactly the packets loaded so far, in input order: nothing lost, duplicated or reordered
        final(send_chan).closed@ || flat(final(send_chan).sent@) =~= input_scanner.src@.subrange(0, res.pos@),
        // [C03][C18] unless stopped from outside (stop flag / receiver gone) the loop only ends when every loadable packet was handed on
        !final(stop_flag).seen@ && !final(send_chan).closed@ ==> res.pos@ == input_scanner.src@.len(),
{
    let ghost src0 = input_scanner.src;
//@EXTRACT reader_loop
    input_scanner
}

} // verus!
fn main() {}
