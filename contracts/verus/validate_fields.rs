// Verus unit: the field-by-field statistics comparison (macro validate_fields!, expanded mechanically
// from the macro text and the invocation in /repo) is complete for the all-integer structs:
// Ok <=> every field equal.
use vstd::prelude::*;
verus! {

#[verifier::external_body]
fn opaque_msg() -> String { String::new() }

//@EXTRACT trigger_stats_struct

impl TriggerStats {
//@EXTRACT trigger_stats_validate_fields
}

//@EXTRACT readout_flags_struct

impl ReadoutFlags {
//@EXTRACT readout_flags_validate_fields
}

} // verus!
fn main() {}
