// Verus unit: the field-by-field statistics comparison (macro validate_fields!, expanded mechanically
// from the macro text and the invocation in /repo) is complete for the all-integer structs:
// Ok <=> every field equal. TriggerStats::validate_other rebuilds the file's value through the 20 getters, which are
// extracted too (kind `getters`: each returns the field it is named after), so a getter reading another field -
// a drift that would go unnoticed only when the two counters differ - fails here.
use vstd::prelude::*;
verus! {

#[verifier::external_body]
fn opaque_msg() -> String { String::new() }

//@EXTRACT trigger_stats_struct

impl TriggerStats {
//@EXTRACT trigger_stats_getters

//@EXTRACT trigger_stats_validate_other

//@EXTRACT trigger_stats_validate_fields
}

//@EXTRACT readout_flags_struct

impl ReadoutFlags {
//@EXTRACT readout_flags_validate_fields

//@EXTRACT readout_flags_validate_other

    /// derive(Default) (dropped by the extraction): only used to build a dummy value
    #[verifier::external_body]
    fn default() -> (r: Self) { unimplemented!() }
}

//@EXTRACT alpide_stats_struct

impl AlpideStats {
//@EXTRACT alpide_stats_validate_other
}

} // verus!
fn main() {}
