// Verus unit (C14): alice_protocol_reader::stats::{InputStatType, Stats} extracted whole (struct, enum and every method).
// View: what the statistics collector will have received = the messages on the reporter channel, plus the counters still
// held locally.
//   * rdh_seen / rdh_filtered / add_payload_size: (sum of the values already reported) + (local counter) grows by exactly
//     1 / 1 / the payload size, for any number of calls - also across the u32 wrap-around reports;
//   * flush_stats reports the three local counters: afterwards the reported sums are the totals;
//   * try_add_link / try_add_fee_id: an id is reported exactly when it was not seen before; the local list stays free of
//     duplicates and equals the ids reported, in order of first appearance - for any number of distinct ids
//     (the Kani harness bnd_input_stats_links covers two).
use vstd::prelude::*;
verus! {

pub struct SendErr;
pub mod flume {
    use vstd::prelude::*;
    use crate::*;
    /// channel to the statistics forwarder: ghost log of the messages accepted; the receiver outlives the scanner
    pub struct Sender<T> { pub sent: Ghost<Seq<T>> }
    impl<T> Sender<T> {
        #[verifier::external_body]
        pub fn send(&mut self, x: T) -> (r: Result<(), SendErr>)
            ensures r is Ok, final(self).sent@ == old(self).sent@.push(x)
        { unimplemented!() }
    }
}
/// std Vec::contains (not specified in vstd for these element types)
/// (used at u8 and u16 only, where `==` is equality of values)
pub assume_specification<T: PartialEq>[ <[T]>::contains ](s: &[T], x: &T) -> (r: bool) ensures r == s@.contains(*x);

/// further u32 arithmetic a changed counter may use (std semantics)
pub assume_specification[ u32::overflowing_add ](a: u32, b: u32) -> (r: (u32, bool))
    ensures r.0 as int == (a as int + b as int) % 0x1_0000_0000, r.1 == (a as int + b as int > u32::MAX as int);

//@EXTRACT input_stat_type

//@EXTRACT stats_struct

// ---- what the collector adds up from the messages
pub mod defs {
    use vstd::prelude::*;
    use crate::*;
    pub open spec fn sum_seen(m: Seq<InputStatType>) -> int decreases m.len() {
        if m.len() == 0 { 0 } else { sum_seen(m.drop_last()) + (if let InputStatType::RDHSeen(v) = m.last() { v as int } else { 0 }) }
    }
    pub open spec fn sum_filtered(m: Seq<InputStatType>) -> int decreases m.len() {
        if m.len() == 0 { 0 } else { sum_filtered(m.drop_last()) + (if let InputStatType::RDHFiltered(v) = m.last() { v as int } else { 0 }) }
    }
    pub open spec fn sum_payload(m: Seq<InputStatType>) -> int decreases m.len() {
        if m.len() == 0 { 0 } else { sum_payload(m.drop_last()) + (if let InputStatType::PayloadSize(v) = m.last() { v as int } else { 0 }) }
    }
    pub open spec fn links_of(m: Seq<InputStatType>) -> Seq<u8> decreases m.len() {
        if m.len() == 0 { Seq::empty() } else if let InputStatType::LinksObserved(l) = m.last() { links_of(m.drop_last()).push(l) } else { links_of(m.drop_last()) }
    }
    pub open spec fn fees_of(m: Seq<InputStatType>) -> Seq<u16> decreases m.len() {
        if m.len() == 0 { Seq::empty() } else if let InputStatType::FeeId(f) = m.last() { fees_of(m.drop_last()).push(f) } else { fees_of(m.drop_last()) }
    }
    pub broadcast proof fn lemma_push_seen(m: Seq<InputStatType>, x: InputStatType)
        ensures #[trigger] sum_seen(m.push(x)) == sum_seen(m) + (if let InputStatType::RDHSeen(v) = x { v as int } else { 0 })
    { assert(m.push(x).drop_last() =~= m); assert(m.push(x).last() == x); }
    pub broadcast proof fn lemma_push_filtered(m: Seq<InputStatType>, x: InputStatType)
        ensures #[trigger] sum_filtered(m.push(x)) == sum_filtered(m) + (if let InputStatType::RDHFiltered(v) = x { v as int } else { 0 })
    { assert(m.push(x).drop_last() =~= m); assert(m.push(x).last() == x); }
    pub broadcast proof fn lemma_push_payload(m: Seq<InputStatType>, x: InputStatType)
        ensures #[trigger] sum_payload(m.push(x)) == sum_payload(m) + (if let InputStatType::PayloadSize(v) = x { v as int } else { 0 })
    { assert(m.push(x).drop_last() =~= m); assert(m.push(x).last() == x); }
    pub broadcast proof fn lemma_push_links(m: Seq<InputStatType>, x: InputStatType)
        ensures #[trigger] links_of(m.push(x)) == (if let InputStatType::LinksObserved(l) = x { links_of(m).push(l) } else { links_of(m) })
    { assert(m.push(x).drop_last() =~= m); assert(m.push(x).last() == x); }
    pub broadcast proof fn lemma_push_fees(m: Seq<InputStatType>, x: InputStatType)
        ensures #[trigger] fees_of(m.push(x)) == (if let InputStatType::FeeId(f) = x { fees_of(m).push(f) } else { fees_of(m) })
    { assert(m.push(x).drop_last() =~= m); assert(m.push(x).last() == x); }
}
pub use defs::{sum_seen, sum_filtered, sum_payload, links_of, fees_of};
broadcast use {defs::lemma_push_seen, defs::lemma_push_filtered, defs::lemma_push_payload, defs::lemma_push_links, defs::lemma_push_fees};

impl Stats {
    pub open spec fn total_seen(&self) -> int { sum_seen(self.reporter.sent@) + self.rdhs_seen }
    pub open spec fn total_filtered(&self) -> int { sum_filtered(self.reporter.sent@) + self.rdhs_filtered }
    pub open spec fn total_payload(&self) -> int { sum_payload(self.reporter.sent@) + self.payload_size_seen }
    pub open spec fn wf(&self) -> bool {
        &&& self.unique_links_observed@.no_duplicates() && links_of(self.reporter.sent@) == self.unique_links_observed@
        &&& self.unique_feeids_observed@.no_duplicates() && fees_of(self.reporter.sent@) == self.unique_feeids_observed@
        &&& self.rdhs_seen < u32::MAX && self.rdhs_filtered < u32::MAX
    }
    /// nothing but the named quantity moved
    pub open spec fn same_except_seen(&self, o: &Stats) -> bool {
        self.total_filtered() == o.total_filtered() && self.total_payload() == o.total_payload()
        && self.unique_links_observed == o.unique_links_observed && self.unique_feeids_observed == o.unique_feeids_observed
    }

//@EXTRACT try_add_link

//@EXTRACT try_add_fee_id

//@EXTRACT rdh_seen

//@EXTRACT rdh_filtered

//@EXTRACT add_payload_size

//@EXTRACT flush_stats
}


// ---- the scanner's per-header hook (InputScanner::collect_rdh_seen_stats, extracted): the scanner is reduced to the
// field the function uses
pub struct Rdh { pub link: u8, pub fee: u16 }
impl Rdh {
    #[verifier::external_body]
    pub fn link_id(&self) -> (r: u8) ensures r == self.link { unimplemented!() }
    #[verifier::external_body]
    pub fn fee_id(&self) -> (r: u16) ensures r == self.fee { unimplemented!() }
}
pub struct InputScanner { pub stats: Option<Stats> }
impl InputScanner {
//@EXTRACT collect_rdh_seen_stats
}

} // verus!
impl core::fmt::Debug for SendErr { fn fmt(&self, _f: &mut core::fmt::Formatter<'_>) -> core::fmt::Result { Ok(()) } }
fn main() {}
