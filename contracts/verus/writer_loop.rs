// Verus unit (C08): the loop of the writer thread (fastpasta::write::lib::spawn_writer, statement fragment of the thread
// closure, extracted verbatim) against the contract of BufferedWriter::push_cdp_arr (unit v_writer): every batch the
// reader thread sends is pushed to the writer exactly once, in order, and the loop ends only when the channel is
// closed and drained - unless the stop flag is seen (error cap / fatal error: out of the property's scope).
use vstd::prelude::*;
verus! {

pub mod defs {
    use vstd::prelude::*;
    pub open spec fn flat(bs: Seq<Seq<u8>>) -> Seq<u8> decreases bs.len() {
        if bs.len() == 0 { Seq::empty() } else { flat(bs.drop_last()) + bs.last() }
    }
    pub broadcast proof fn lemma_flat_push(bs: Seq<Seq<u8>>, b: Seq<u8>)
        ensures #[trigger] flat(bs.push(b)) =~= flat(bs) + b
    {
        assert(bs.push(b).drop_last() =~= bs);
        assert(bs.push(b).last() == b);
    }
}
pub use defs::flat;

#[derive(PartialEq, Eq, Structural, Clone, Copy)]
pub enum Ordering { SeqCst }
/// the shared stop flag: another thread may set it at any time, a load returns an arbitrary value
pub struct StopFlag { pub seen: Ghost<bool> }   // seen: some load returned true
impl StopFlag {
    #[verifier::external_body]
    pub fn load(&mut self, o: Ordering) -> (r: bool) ensures final(self).seen@ == (old(self).seen@ || r) { unimplemented!() }
}

/// a batch, abstracted to the bytes of its packets (header then payload, in order: cdps_bytes of unit v_writer)
pub struct CdpArray { pub bytes: Ghost<Seq<u8>> }
pub struct RecvErr;
/// crossbeam channel from the reader thread: `queue` = the batches still to come, in order;
/// recv fails only when the channel is disconnected and drained
pub struct Receiver { pub queue: Ghost<Seq<Seq<u8>>>, pub taken: Ghost<Seq<Seq<u8>>> }
impl Receiver {
    #[verifier::external_body]
    pub fn recv(&mut self) -> (r: Result<CdpArray, RecvErr>)
        ensures
            (r matches Ok(t) ==> old(self).queue@.len() > 0 && t.bytes@ == old(self).queue@[0]
                && final(self).queue@ == old(self).queue@.subrange(1, old(self).queue@.len() as int) && final(self).taken@ == old(self).taken@.push(t.bytes@)),
            (r is Err ==> old(self).queue@.len() == 0 && final(self).queue == old(self).queue && final(self).taken == old(self).taken),
    { unimplemented!() }
}
/// BufferedWriter, abstracted to stream() of unit v_writer (bytes handed to the sink ++ bytes still buffered)
pub struct BufferedWriter { pub stream: Ghost<Seq<u8>> }
impl BufferedWriter {
    /// contract proved in unit v_writer
    #[verifier::external_body]
    pub fn push_cdp_arr(&mut self, cdp_arr: CdpArray) ensures final(self).stream@ == old(self).stream@ + cdp_arr.bytes@ { unimplemented!() }
}
broadcast use defs::lemma_flat_push;

fn site_writer_loop(stop_flag: &mut StopFlag, data_recv: &mut Receiver, writer: &mut BufferedWriter)
    requires old(data_recv).taken@.len() == 0, !old(stop_flag).seen@,
    ensures
        // [C08] without a stop request every batch sent by the reader thread has been pushed, exactly once, in order
        !final(stop_flag).seen@ ==> final(data_recv).queue@.len() == 0 && final(writer).stream@ =~= old(writer).stream@ + flat(final(data_recv).taken@),
        final(data_recv).taken@ + final(data_recv).queue@ =~= old(data_recv).queue@,
{
    let ghost q0 = data_recv.queue@;
    let ghost s0 = writer.stream@;
//@EXTRACT writer_loop
}

} // verus!
fn main() {}
