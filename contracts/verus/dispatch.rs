// Verus unit: CdpRunningValidator::check / preprocess_status_word dispatch, verified modularly.
// `check` and `preprocess_status_word` are extracted verbatim from /repo; the FSM step, the tracker and
// the per-word handlers are opaque here with contracts (ghost trace of handler calls). The FSM step
// contract is proved on the real code by Kani (full_fsm_step), the handlers by the Kani harnesses
// full_handler_*.
use vstd::prelude::*;
verus! {

//@EXTRACT its_payload_word_enum

pub mod its_payload_fsm_cont {
//@EXTRACT ambigious_error_enum
}
use its_payload_fsm_cont::AmbigiousError;

//@EXTRACT status_word_kind_enum

/// ghost events: which handler ran
pub enum Ev { Report, Data, Tdh, Tdt, Ihw, Ddw0, ChkTdhNoCont, ChkTrigInterval, ChkIhwRdh, ChkTdhAfterDone, ChkTdhCont }

pub struct ItsPayloadFsmContinuous { pub st: Ghost<int> }
uninterp spec fn spec_advance(st: int, w: Seq<u8>) -> (Result<ItsPayloadWord, AmbigiousError>, int);
impl ItsPayloadFsmContinuous {
    #[verifier::external_body]
    fn advance(&mut self, gbt_word: &[u8]) -> (r: Result<ItsPayloadWord, AmbigiousError>)
        ensures r == spec_advance(old(self).st@, gbt_word@).0, final(self).st@ == spec_advance(old(self).st@, gbt_word@).1
    { unimplemented!() }
}
pub struct CdpTracker { pub n: Ghost<int> }
impl CdpTracker {
    #[verifier::external_body]
    fn incr_word_count(&mut self) ensures final(self).n@ == old(self).n@ + 1 { unimplemented!() }
}

pub struct CdpRunningValidator {
    pub running_checks_enabled: bool,
    pub its_state_machine: ItsPayloadFsmContinuous,
    pub tracker: CdpTracker,
    pub trace: Ghost<Seq<Ev>>,
}

spec fn only_trace(o: CdpRunningValidator, n: CdpRunningValidator, ev: Ev) -> bool {
    n.trace@ == o.trace@.push(ev) && n.running_checks_enabled == o.running_checks_enabled
    && n.its_state_machine.st@ == o.its_state_machine.st@ && n.tracker.n@ == o.tracker.n@
}

spec fn running(b: bool, s: Seq<Ev>) -> Seq<Ev> { if b { s } else { Seq::empty() } }

/// the documented dispatch: word class (from the state machine) -> checks that run
spec fn dispatch_spec(cls: Result<ItsPayloadWord, AmbigiousError>, run: bool) -> Seq<Ev> {
    match cls {
        Ok(ItsPayloadWord::DataWord) | Ok(ItsPayloadWord::CDW) => seq![Ev::Data],
        Ok(ItsPayloadWord::TDH) => seq![Ev::Tdh] + running(run, seq![Ev::ChkTdhNoCont, Ev::ChkTrigInterval]),
        Ok(ItsPayloadWord::TDT) => seq![Ev::Tdt],
        Ok(ItsPayloadWord::IHW) => seq![Ev::Ihw] + running(run, seq![Ev::ChkIhwRdh]),
        Ok(ItsPayloadWord::TDH_after_packet_done) => seq![Ev::Tdh] + running(run, seq![Ev::ChkTdhAfterDone, Ev::ChkTrigInterval]),
        Ok(ItsPayloadWord::DDW0) => seq![Ev::Ddw0],
        Ok(ItsPayloadWord::TDH_continuation) => seq![Ev::Tdh] + running(run, seq![Ev::ChkTdhCont]),
        Ok(ItsPayloadWord::IHW_continuation) => seq![Ev::Ihw],
        Err(AmbigiousError::TDH_or_DDW0) => seq![Ev::Report, Ev::Tdh],
        Err(AmbigiousError::DW_or_TDT_CDW) => seq![Ev::Report, Ev::Data],
        Err(AmbigiousError::DDW0_or_TDH_IHW) => seq![Ev::Report, Ev::Ddw0],
    }
}

spec fn kind_ev(k: StatusWordKind) -> Ev {
    match k {
        StatusWordKind::Ihw(_) => Ev::Ihw,
        StatusWordKind::Tdh(_) => Ev::Tdh,
        StatusWordKind::Tdt(_) => Ev::Tdt,
        StatusWordKind::Ddw0(_) => Ev::Ddw0,
    }
}

impl CdpRunningValidator {
    #[verifier::external_body]
    fn report_error(&mut self, error: &str, word_slice: &[u8]) ensures only_trace(*old(self), *final(self), Ev::Report) { unimplemented!() }
    #[verifier::external_body]
    fn preprocess_tdh(&mut self, s: &[u8]) ensures only_trace(*old(self), *final(self), Ev::Tdh) { unimplemented!() }
    #[verifier::external_body]
    fn preprocess_tdt(&mut self, s: &[u8]) ensures only_trace(*old(self), *final(self), Ev::Tdt) { unimplemented!() }
    #[verifier::external_body]
    fn preprocess_ihw(&mut self, s: &[u8]) ensures only_trace(*old(self), *final(self), Ev::Ihw) { unimplemented!() }
    #[verifier::external_body]
    fn preprocess_ddw0(&mut self, s: &[u8]) ensures only_trace(*old(self), *final(self), Ev::Ddw0) { unimplemented!() }
    #[verifier::external_body]
    fn preprocess_data_word(&mut self, s: &[u8]) ensures only_trace(*old(self), *final(self), Ev::Data) { unimplemented!() }
    #[verifier::external_body]
    fn check_tdh_no_continuation(&mut self, s: &[u8]) ensures only_trace(*old(self), *final(self), Ev::ChkTdhNoCont) { unimplemented!() }
    #[verifier::external_body]
    fn check_tdh_trigger_interval(&mut self, s: &[u8]) ensures only_trace(*old(self), *final(self), Ev::ChkTrigInterval) { unimplemented!() }
    #[verifier::external_body]
    fn check_rdh_at_initial_ihw(&mut self, s: &[u8]) ensures only_trace(*old(self), *final(self), Ev::ChkIhwRdh) { unimplemented!() }
    #[verifier::external_body]
    fn check_tdh_by_was_tdt_packet_done_true(&mut self, s: &[u8]) ensures only_trace(*old(self), *final(self), Ev::ChkTdhAfterDone) { unimplemented!() }
    #[verifier::external_body]
    fn check_tdh_continuation(&mut self, s: &[u8]) ensures only_trace(*old(self), *final(self), Ev::ChkTdhCont) { unimplemented!() }

//@EXTRACT preprocess_status_word

//@EXTRACT check
}

} // verus!
fn main() {}
