// Verus unit: StatsCollector::collect and ::finalize (extracted verbatim), verified modularly: every kind of
// statistics message is routed to exactly its accumulator with its value; finalisation sorts the links,
// finalises the error statistics (stave attribution only for ITS data) exactly once.
use vstd::prelude::*;
verus! {

pub struct Msg { pub id: u64 }
pub struct TrgStr { pub id: u64 }
#[derive(PartialEq, Eq, Structural, Clone, Copy)]
pub enum SystemId { ITS, Other }
pub struct AlpideStats { pub v: u64 }

pub enum StatType {
    Fatal(Msg), Error(Msg), RunTriggerType((u32, TrgStr)), TriggerType(u32), SystemId(SystemId), RDHSeen(u32),
    RDHFiltered(u32), PayloadSize(u32), LinksObserved(u8), RdhVersion(u8), DataFormat(u8), HBFsSeen(u32),
    LayerStaveSeen { layer: u8, stave: u8 }, FeeId(u16), AlpideStats(AlpideStats),
}

/// ghost record of accumulator calls
pub enum Acc {
    RdhsSeen(u32), Hbfs(u32), Payload(u64), Link(u8), Version(u8), Fee(u16), RunTrg(u32, u64), Trg(u32), Sys(SystemId),
    Format(u8), LayerStave(u8, u8), Filtered(u32), Alpide(u64), Err(u64), Fatal(u64),
    FinalizeRdh, FinalizeErr(bool, bool),
}

pub struct RdhStats { pub log: Ghost<Seq<Acc>>, pub sys: Option<SystemId> }
impl RdhStats {
    #[verifier::external_body] pub fn add_rdhs_seen(&mut self, e: u32) ensures final(self).log@ == old(self).log@.push(Acc::RdhsSeen(e)), final(self).sys == old(self).sys { unimplemented!() }
    #[verifier::external_body] pub fn add_hbfs_seen(&mut self, e: u32) ensures final(self).log@ == old(self).log@.push(Acc::Hbfs(e)), final(self).sys == old(self).sys { unimplemented!() }
    #[verifier::external_body] pub fn add_payload_size(&mut self, e: u64) ensures final(self).log@ == old(self).log@.push(Acc::Payload(e)), final(self).sys == old(self).sys { unimplemented!() }
    #[verifier::external_body] pub fn record_link(&mut self, e: u8) ensures final(self).log@ == old(self).log@.push(Acc::Link(e)), final(self).sys == old(self).sys { unimplemented!() }
    #[verifier::external_body] pub fn record_rdh_version(&mut self, e: u8) ensures final(self).log@ == old(self).log@.push(Acc::Version(e)), final(self).sys == old(self).sys { unimplemented!() }
    #[verifier::external_body] pub fn record_fee_observed(&mut self, e: u16) ensures final(self).log@ == old(self).log@.push(Acc::Fee(e)), final(self).sys == old(self).sys { unimplemented!() }
    #[verifier::external_body] pub fn record_run_trigger_type(&mut self, e: (u32, TrgStr)) ensures final(self).log@ == old(self).log@.push(Acc::RunTrg(e.0, e.1.id)), final(self).sys == old(self).sys { unimplemented!() }
    #[verifier::external_body] pub fn record_trigger_type(&mut self, e: u32) ensures final(self).log@ == old(self).log@.push(Acc::Trg(e)), final(self).sys == old(self).sys { unimplemented!() }
    #[verifier::external_body] pub fn record_system_id(&mut self, e: SystemId) ensures final(self).log@ == old(self).log@.push(Acc::Sys(e)) { unimplemented!() }
    #[verifier::external_body] pub fn record_data_format(&mut self, e: u8) ensures final(self).log@ == old(self).log@.push(Acc::Format(e)), final(self).sys == old(self).sys { unimplemented!() }
    #[verifier::external_body] pub fn record_layer_stave_seen(&mut self, e: (u8, u8)) ensures final(self).log@ == old(self).log@.push(Acc::LayerStave(e.0, e.1)), final(self).sys == old(self).sys { unimplemented!() }
    #[verifier::external_body] pub fn add_rdhs_filtered(&mut self, e: u32) ensures final(self).log@ == old(self).log@.push(Acc::Filtered(e)), final(self).sys == old(self).sys { unimplemented!() }
    #[verifier::external_body] pub fn finalize(&mut self) ensures final(self).log@ == old(self).log@.push(Acc::FinalizeRdh), final(self).sys == old(self).sys { unimplemented!() }
    pub fn system_id(&self) -> (r: Option<SystemId>) ensures r == self.sys { self.sys }
    #[verifier::external_body] pub fn layer_staves_as_slice(&self) -> (r: &[(u8, u8)]) { unimplemented!() }
}
pub struct ErrorStats { pub log: Ghost<Seq<Acc>> }
impl ErrorStats {
    #[verifier::external_body] pub fn add_err(&mut self, m: Msg) ensures final(self).log@ == old(self).log@.push(Acc::Err(m.id)) { unimplemented!() }
    #[verifier::external_body] pub fn add_fatal_err(&mut self, m: Msg) ensures final(self).log@ == old(self).log@.push(Acc::Fatal(m.id)) { unimplemented!() }
    #[verifier::external_body] pub fn finalize_stats(&mut self, mute_errors: bool, layer_staves_seen: Option<&[(u8, u8)]>)
        ensures final(self).log@ == old(self).log@.push(Acc::FinalizeErr(mute_errors, layer_staves_seen.is_some())) { unimplemented!() }
}
pub struct AlpideAcc { pub log: Ghost<Seq<Acc>> }
impl AlpideAcc {
    #[verifier::external_body] pub fn sum(&mut self, s: AlpideStats) ensures final(self).log@ == old(self).log@.push(Acc::Alpide(s.v)) { unimplemented!() }
}

pub struct StatsCollector {
    pub is_finalized: bool,
    pub rdh_stats: RdhStats,
    pub error_stats: ErrorStats,
    pub alpide_stats: Option<AlpideAcc>,
}

/// the documented routing: which accumulator gets which value
pub open spec fn route(s: StatType) -> (int, Acc) {   // (0 = rdh_stats, 1 = error_stats, 2 = alpide_stats, accumulator call)
    match s {
        StatType::RDHSeen(e) => (0, Acc::RdhsSeen(e)),
        StatType::HBFsSeen(e) => (0, Acc::Hbfs(e)),
        StatType::PayloadSize(e) => (0, Acc::Payload(e as u64)),
        StatType::LinksObserved(e) => (0, Acc::Link(e)),
        StatType::RdhVersion(e) => (0, Acc::Version(e)),
        StatType::FeeId(e) => (0, Acc::Fee(e)),
        StatType::RunTriggerType(e) => (0, Acc::RunTrg(e.0, e.1.id)),
        StatType::TriggerType(e) => (0, Acc::Trg(e)),
        StatType::SystemId(e) => (0, Acc::Sys(e)),
        StatType::DataFormat(e) => (0, Acc::Format(e)),
        StatType::LayerStaveSeen { layer, stave } => (0, Acc::LayerStave(layer, stave)),
        StatType::RDHFiltered(e) => (0, Acc::Filtered(e)),
        StatType::AlpideStats(s) => (2, Acc::Alpide(s.v)),
        StatType::Error(m) => (1, Acc::Err(m.id)),
        StatType::Fatal(m) => (1, Acc::Fatal(m.id)),
    }
}

impl StatsCollector {
    fn rdh_stats(&self) -> (r: &RdhStats) ensures *r == self.rdh_stats { &self.rdh_stats }

//@EXTRACT collect

//@EXTRACT finalize
}

} // verus!
fn main() {}
