// Verus unit: the row structure of the ITS readout-frame views (C19): `its_readout_frame_view`,
// `its_readout_frame_data_view` (statement fragments after the stdout lock is taken) and `generate_status_word_view`
// (whole function), extracted verbatim and verified modularly: one header, then per packet one RDH row at the
// packet's offset followed by one row per payload word in order - every status word (TDH, TDT, IHW, DDW0, CDW) in
// both views, data words only in the data view - each at the position computed from (word index, data format,
// packet offset) and built from the word's own bytes.
use vstd::prelude::*;
verus! {

/// std::option::Option::map_or (not specified in vstd): the default for None, the closure's result for Some
pub assume_specification<T, U, F: FnOnce(T) -> U>[ Option::<T>::map_or ](o: Option<T>, default: U, f: F) -> (r: U)
    where F: core::marker::Destruct, U: core::marker::Destruct
    requires o matches Some(x) ==> f.requires((x,)),
    ensures o is None ==> r == default, o matches Some(x) ==> f.ensures((x,), r);

pub struct ErrBox;
#[derive(PartialEq, Eq, Structural, Clone, Copy)]
#[allow(non_camel_case_types)]
pub enum ItsPayloadWord { IHW, IHW_continuation, TDH, TDH_continuation, TDH_after_packet_done, TDT, CDW, DataWord, DDW0 }
pub struct Msg;

/// the documented id table (ItsPayloadWord::from_id: Kani full_word_from_id)
pub open spec fn data_id(id: u8) -> bool {
    (0x20 <= id <= 0x28) || (0x40 <= id <= 0x46) || (0x48 <= id <= 0x4E) || (0x50 <= id <= 0x56) || (0x58 <= id <= 0x5E)
}
pub open spec fn type_of(id: u8) -> Option<ItsPayloadWord> {
    if data_id(id) { Some(ItsPayloadWord::DataWord) }
    else if id == 0xE8 { Some(ItsPayloadWord::TDH) }
    else if id == 0xF0 { Some(ItsPayloadWord::TDT) }
    else if id == 0xE0 { Some(ItsPayloadWord::IHW) }
    else if id == 0xE4 { Some(ItsPayloadWord::DDW0) }
    else if id == 0xF8 { Some(ItsPayloadWord::CDW) }
    else { None }
}
impl ItsPayloadWord {
    #[verifier::external_body]
    pub fn from_id(word_id: u8) -> (r: Result<ItsPayloadWord, Msg>)
        ensures (r matches Ok(t) ==> type_of(word_id) == Some(t)), (r is Err ==> type_of(word_id).is_none())
    { unimplemented!() }
}

/// position column of a row: what mem_pos_calc_to_string was given (its arithmetic: Kani full_calc_word_mem_pos)
pub struct PosStr { pub idx: usize, pub fmt: u8, pub base: u64 }
impl PosStr {
    #[verifier::external_body] pub fn trim(&self) -> (r: &PosStr) { unimplemented!() }
}
pub enum Row {
    Header,
    Rdh { pos: u64 },
    Word { t: ItsPayloadWord, idx: usize, fmt: u8, base: u64, bytes: Seq<u8> },
}

pub mod io {
    use vstd::prelude::*;
    use crate::*;
    pub struct StdoutLock { pub rows: Ghost<Seq<Row>> }
}
use io::StdoutLock;

pub struct Rdh { pub fmt: u8 }
impl Rdh { pub fn data_format(&self) -> (r: u8) ensures r == self.fmt { self.fmt } }

/// payload -> word slots (preprocess_payload: Kani full_chunkify, bnd40_preprocess*, bnd40_do_payload_checks_*)
pub uninterp spec fn chunks_of(payload: Seq<u8>) -> Seq<Seq<u8>>;

pub struct Chunks<'a> { pub slices: Ghost<Seq<&'a [u8]>> }
pub struct EnumChunks<'a> { pub slices: Ghost<Seq<&'a [u8]>>, pub pos: Ghost<int> }
impl<'a> Chunks<'a> {
    #[verifier::external_body]
    pub fn enumerate(self) -> (r: EnumChunks<'a>) ensures r.slices == self.slices, r.pos@ == 0 { unimplemented!() }
}
impl<'a> Iterator for EnumChunks<'a> {
    type Item = (usize, &'a [u8]);
    #[verifier::external_body]
    fn next(&mut self) -> (r: Option<(usize, &'a [u8])>) { unimplemented!() }
}
impl<'a> vstd::std_specs::iter::IteratorSpecImpl for EnumChunks<'a> {
    open spec fn obeys_prophetic_iter_laws(&self) -> bool { true }
    open spec fn remaining(&self) -> Seq<(usize, &'a [u8])> {
        Seq::new((self.slices@.len() - self.pos@) as nat, |i: int| ((self.pos@ + i) as usize, self.slices@[self.pos@ + i]))
    }
    open spec fn will_return_none(&self) -> bool { true }
    open spec fn peek(&self, index: int) -> Option<(usize, &'a [u8])> {
        if 0 <= index < self.slices@.len() - self.pos@ { Some(((self.pos@ + index) as usize, self.slices@[self.pos@ + index])) } else { None }
    }
    open spec fn decrease(&self) -> Option<nat> { Some((self.slices@.len() - self.pos@) as nat) }
}
pub open spec fn chunks_match(slices: Seq<&[u8]>, payload: Seq<u8>) -> bool {
    slices.len() == chunks_of(payload).len() && slices.len() < usize::MAX
    && forall|i: int| 0 <= i < slices.len() ==> (#[trigger] slices[i])@ == chunks_of(payload)[i] && slices[i]@.len() >= 10
}
#[verifier::external_body]
pub fn preprocess_payload<'a>(payload: &'a [u8]) -> (r: Result<Chunks<'a>, ErrBox>)
    ensures r matches Ok(c) ==> chunks_match(c.slices@, payload@)
{ unimplemented!() }

/// a batch of packets: (header, payload, offset) in input order (CdpArray: arrayvec-backed, not verified)
pub struct CdpArray<'a> { pub items: Ghost<Seq<(&'a Rdh, &'a [u8], u64)>> }
pub struct CdpIter<'a> { pub items: Ghost<Seq<(&'a Rdh, &'a [u8], u64)>>, pub pos: Ghost<int> }
impl<'a> CdpArray<'a> {
    #[verifier::external_body]
    pub fn iter(&self) -> (r: CdpIter<'a>) ensures r.items == self.items, r.pos@ == 0 { unimplemented!() }
    // further public API of CdpArray (so that a changed body using it stays checkable)
    #[verifier::external_body]
    pub fn len(&self) -> (r: usize) ensures r == self.items@.len() { unimplemented!() }
    #[verifier::external_body]
    pub fn is_empty(&self) -> (r: bool) ensures r == (self.items@.len() == 0) { unimplemented!() }
    #[verifier::external_body]
    pub fn rdh_slice(&self) -> (r: &[Rdh])
        ensures r@.len() == self.items@.len(), forall|i: int| 0 <= i < r@.len() ==> r@[i] == *(#[trigger] self.items@[i]).0
    { unimplemented!() }
}
impl<'a> Iterator for CdpIter<'a> {
    type Item = (&'a Rdh, &'a [u8], u64);
    #[verifier::external_body]
    fn next(&mut self) -> (r: Option<(&'a Rdh, &'a [u8], u64)>) { unimplemented!() }
}
impl<'a> vstd::std_specs::iter::IteratorSpecImpl for CdpIter<'a> {
    open spec fn obeys_prophetic_iter_laws(&self) -> bool { true }
    open spec fn remaining(&self) -> Seq<(&'a Rdh, &'a [u8], u64)> { self.items@.subrange(self.pos@, self.items@.len() as int) }
    open spec fn will_return_none(&self) -> bool { true }
    open spec fn peek(&self, index: int) -> Option<(&'a Rdh, &'a [u8], u64)> {
        if 0 <= index < self.items@.len() - self.pos@ { Some(self.items@[self.pos@ + index]) } else { None }
    }
    open spec fn decrease(&self) -> Option<nat> { Some((self.items@.len() - self.pos@) as nat) }
}

// ------------------------------------------------------------------ expected rows (from the property statement)
/// rows of one word given its first 10 bytes
pub open spec fn word_rows(w: Seq<u8>, idx: usize, fmt: u8, base: u64, display_data: bool) -> Seq<Row> {
    match type_of(w[9]) {
        None => Seq::empty(),   // unknown id: reported on stderr, no row
        Some(t) => if t == ItsPayloadWord::DataWord && !display_data { Seq::empty() } else { seq![Row::Word { t, idx, fmt, base, bytes: w }] },
    }
}
pub open spec fn payload_rows(ws: Seq<Seq<u8>>, n: int, fmt: u8, base: u64, dd: bool) -> Seq<Row> decreases n {
    if n <= 0 { Seq::empty() } else { payload_rows(ws, n - 1, fmt, base, dd) + word_rows(ws[n - 1].subrange(0, 10), (n - 1) as usize, fmt, base, dd) }
}
pub open spec fn cdp_rows(c: (&Rdh, &[u8], u64), dd: bool) -> Seq<Row> {
    seq![Row::Rdh { pos: c.2 }] + payload_rows(chunks_of(c.1@), chunks_of(c.1@).len() as int, c.0.fmt, c.2, dd)
}
pub open spec fn all_rows(cdps: Seq<(&Rdh, &[u8], u64)>, n: int, dd: bool) -> Seq<Row> decreases n {
    if n <= 0 { seq![Row::Header] } else { all_rows(cdps, n - 1, dd) + cdp_rows(cdps[n - 1], dd) }
}

pub mod view {
    use vstd::prelude::*;
    use crate::*;

    #[verifier::external_body]
    pub fn print_start_of_its_readout_frame_header_text(stdio_lock: &mut StdoutLock, disable_styled_view: bool) -> (r: Result<(), ErrBox>)
        ensures r.is_ok() ==> final(stdio_lock).rows@ == old(stdio_lock).rows@.push(Row::Header)
    { unimplemented!() }
    #[verifier::external_body]
    pub fn print_rdh_its_readout_frame_view(rdh: &Rdh, rdh_mem_pos: u64, stdio_lock: &mut StdoutLock, disable_styled_view: bool) -> (r: Result<(), ErrBox>)
        ensures r.is_ok() ==> final(stdio_lock).rows@ == old(stdio_lock).rows@.push(Row::Rdh { pos: rdh_mem_pos })
    { unimplemented!() }
    /// position column (arithmetic: Kani full_calc_word_mem_pos)
    #[verifier::external_body]
    pub fn mem_pos_calc_to_string(idx: usize, data_format: u8, rdh_mem_pos: u64, disable_styled_view: bool) -> (r: PosStr)
        ensures r.idx == idx, r.fmt == data_format, r.base == rdh_mem_pos
    { unimplemented!() }
    #[verifier::external_body]
    pub fn format_word_slice(word: &[u8]) -> Msg { unimplemented!() }
    /// one styled / unstyled row for a word of the given type; data words only when asked for (writeln!-based, not extracted)
    #[verifier::external_body]
    pub fn generate_its_readout_frame_word_view(word_type: ItsPayloadWord, gbt_word_slice: &[u8], mem_pos_str: &PosStr,
        stdio_lock: &mut StdoutLock, disable_styled_view: bool, display_data_words: bool) -> (r: Result<(), ErrBox>)
        ensures r.is_ok() ==> final(stdio_lock).rows@ == old(stdio_lock).rows@ + (
            if word_type == ItsPayloadWord::DataWord && !display_data_words { Seq::<Row>::empty() }
            else { seq![Row::Word { t: word_type, idx: mem_pos_str.idx, fmt: mem_pos_str.fmt, base: mem_pos_str.base, bytes: gbt_word_slice@ }] })
    { unimplemented!() }

//@EXTRACT generate_status_word_view

    pub mod frames {
        use vstd::prelude::*;
        use crate::*;
        pub fn site_its_readout_frame_view<'a>(cdp_array: &CdpArray<'a>, disable_styled_view: bool, stdio_lock: &mut StdoutLock) -> (r: Result<(), ErrBox>)
            requires old(stdio_lock).rows@.len() == 0, cdp_array.items@.len() < 100000,
            ensures r.is_ok() ==> final(stdio_lock).rows@ =~= all_rows(cdp_array.items@, cdp_array.items@.len() as int, false), // [C19] one header, per packet one RDH row then one row per status word, in order; data words are not shown
        {
//@EXTRACT frame_view_block
        }
        pub fn site_its_readout_frame_data_view<'a>(cdp_array: &CdpArray<'a>, disable_styled_view: bool, stdio_lock: &mut StdoutLock) -> (r: Result<(), ErrBox>)
            requires old(stdio_lock).rows@.len() == 0, cdp_array.items@.len() < 100000,
            ensures r.is_ok() ==> final(stdio_lock).rows@ =~= all_rows(cdp_array.items@, cdp_array.items@.len() as int, true), // [C19] the data view shows every word of every packet, in order
        {
//@EXTRACT frame_data_view_block
        }
    }
}

} // verus!
fn main() {}
