// Verus unit: lifting one-step contracts to all finite sequences (induction).
// If the implementation step simulates the specification step from EVERY state (what the Kani step
// harnesses prove: full_fsm_step, full_running_step, full_alpide_decode_step, accumulator steps), then
// every run of the implementation over any finite input sequence simulates the specification run, and a
// verdict function of (state, input) agrees at every position.
use vstd::prelude::*;
verus! {

pub open spec fn run<S, X>(f: spec_fn(S, X) -> S, s: S, xs: Seq<X>) -> S
    decreases xs.len()
{
    if xs.len() == 0 { s } else { run(f, f(s, xs[0]), xs.subrange(1, xs.len() as int)) }
}

pub proof fn lemma_simulation_lifts<S, A, X>(fi: spec_fn(S, X) -> S, fs: spec_fn(A, X) -> A, abs: spec_fn(S) -> A, s: S, xs: Seq<X>)
    requires forall|s: S, x: X| #[trigger] abs(fi(s, x)) == fs(abs(s), x)
    ensures abs(run(fi, s, xs)) == run(fs, abs(s), xs)
    decreases xs.len()
{
    if xs.len() > 0 {
        lemma_simulation_lifts(fi, fs, abs, fi(s, xs[0]), xs.subrange(1, xs.len() as int));
    }
}

/// state reached before position k
pub open spec fn state_at<S, X>(f: spec_fn(S, X) -> S, s: S, xs: Seq<X>, k: int) -> S {
    run(f, s, xs.subrange(0, k))
}

/// verdicts (word class / error-or-not) agree at every position of every sequence
pub proof fn lemma_verdicts_agree<S, A, X, V>(fi: spec_fn(S, X) -> S, fs: spec_fn(A, X) -> A, abs: spec_fn(S) -> A,
        vi: spec_fn(S, X) -> V, vs: spec_fn(A, X) -> V, s: S, xs: Seq<X>, k: int)
    requires
        forall|s: S, x: X| #[trigger] abs(fi(s, x)) == fs(abs(s), x),
        forall|s: S, x: X| #[trigger] vi(s, x) == vs(abs(s), x),
        0 <= k < xs.len(),
    ensures vi(state_at(fi, s, xs, k), xs[k]) == vs(state_at(fs, abs(s), xs, k), xs[k])
{
    lemma_simulation_lifts(fi, fs, abs, s, xs.subrange(0, k));
}

} // verus!
fn main() {}
