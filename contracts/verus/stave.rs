// Verus unit: readout-frame bookkeeping in stave mode (extracted verbatim), verified modularly:
// new_frame / try_close_frame / is_in_frame of ItsReadoutFrameValidator and CdpRunningValidator::process_readout_frame
// (a closing TDT either hands an open frame to the frame checks exactly once, or - when no frame start was
// ever seen - reports exactly one error E59).
use vstd::prelude::*;
verus! {

/// an error message; `sortable`: starts with the upper-case hexadecimal offset the error sorter parses (see unit v_msg_shape)
pub struct Msg { pub sortable: bool }
impl Msg { pub fn into(self) -> (r: Msg) ensures r == self { self } }
#[verifier::external_body]
fn opaque_msg_shaped(b: bool) -> (m: Msg) ensures m.sortable == b { unimplemented!() }
pub enum StatType { Error(Msg) }
pub struct SendErr;
pub struct Sender { pub sent: Ghost<int> }
impl Sender {
    #[verifier::external_body]
    pub fn send(&mut self, x: StatType) -> (r: Result<(), SendErr>) requires x matches StatType::Error(m) ==> m.sortable, // [C04] every error message starts with 0x<UPPER HEX> (the error sorter panics otherwise)
        ensures r.is_ok(), final(self).sent@ == old(self).sent@ + 1 { unimplemented!() }
}
pub struct Stave;
pub struct StatusWordContainer;
pub struct Rdh;
pub struct RdhValidator;
impl RdhValidator {
    #[verifier::external_body] pub fn rdh(&self) -> (r: &Rdh) { unimplemented!() }
}
pub struct CdpTracker { pub pos: u64 }
impl CdpTracker {
    pub fn current_word_mem_pos(&self) -> (r: u64) ensures r == self.pos { self.pos }
}

pub struct AlpideReadoutFrame { pub start: u64, pub end: u64 }
impl AlpideReadoutFrame {
    pub fn new(start_mem_pos: u64) -> (r: Self) ensures r.start == start_mem_pos, r.end == 0 { AlpideReadoutFrame { start: start_mem_pos, end: 0 } }
    pub fn close_frame(&mut self, frame_end_mem_pos: u64) ensures final(self).end == frame_end_mem_pos, final(self).start == old(self).start { self.end = frame_end_mem_pos; }
}

pub struct ItsReadoutFrameValidator {
    pub alpide_readout_frame: Option<AlpideReadoutFrame>,
    pub is_readout_frame: bool,
    pub from_stave: Option<Stave>,
    pub processed: Ghost<int>,
}
impl ItsReadoutFrameValidator {
//@EXTRACT rfv_is_in_frame

//@EXTRACT rfv_new_frame

//@EXTRACT rfv_try_close_frame

    /// frame checks (check_alpide_data_frame etc.): recorded as an event; consumes the frame
    #[verifier::external_body]
    pub fn process_frame(&mut self, err_chan: &Sender, status_words: &StatusWordContainer, current_rdh: &Rdh)
        requires old(self).alpide_readout_frame.is_some()
        ensures final(self).processed@ == old(self).processed@ + 1, final(self).is_readout_frame == old(self).is_readout_frame
    { unimplemented!() }
}

pub struct CdpRunningValidator {
    pub tracker: CdpTracker,
    pub rdh_validator: RdhValidator,
    pub status_words: StatusWordContainer,
    pub stats_send_ch: Sender,
    pub readout_frame_validator: Option<ItsReadoutFrameValidator>,
}
impl CdpRunningValidator {
//@EXTRACT process_readout_frame
}

} // verus!
impl core::fmt::Debug for SendErr { fn fmt(&self, _f: &mut core::fmt::Formatter<'_>) -> core::fmt::Result { Ok(()) } }
fn main() {}
