// Verus unit: forward_input_stats_to_stats_collector (extracted verbatim; loop invariant inserted; the two
// channel handles are taken by `&mut` instead of `&` so that ghost state can record the traffic): every
// statistic the scanner reports is forwarded to the collector as the same kind with the same value, in order.
use vstd::prelude::*;
verus! {

pub struct Msg { pub id: u64 }
pub struct TrgStr;

pub enum InputStatType {
    Fatal(Msg), Error(Msg), RunTriggerType(u32), DataFormat(u8), LinksObserved(u8), FeeId(u16),
    RDHSeen(u32), RDHFiltered(u32), PayloadSize(u32), SystemId(u8),
}
#[derive(PartialEq, Eq, Structural, Clone, Copy)]
pub enum SysId { ITS, Other }
pub enum StatType {
    Fatal(Msg), Error(Msg), RunTriggerType((u32, TrgStr)), SystemId(SysId), RDHSeen(u32), RDHFiltered(u32),
    PayloadSize(u32), LinksObserved(u8), DataFormat(u8), FeeId(u16),
}

#[verifier::external_body]
fn opaque_msg() -> Msg { Msg { id: 0 } }

pub uninterp spec fn sys_ok(id: u8) -> bool;
pub uninterp spec fn sys_of(id: u8) -> SysId;
pub mod stats {
    use vstd::prelude::*;
    pub struct SystemId;
    impl SystemId {
        #[verifier::external_body]
        pub fn from_system_id(sys_id: u8) -> (r: Result<crate::SysId, crate::Msg>)
            ensures r.is_ok() == crate::sys_ok(sys_id), r matches Ok(s) ==> s == crate::sys_of(sys_id)
        { unimplemented!() }
    }
}
pub mod analyze { pub mod view { pub mod lib {
    #[verifier::external_body]
    pub fn trigger_type_string_from_int(v: u32) -> crate::TrgStr { unimplemented!() }
} } }

/// kind + payload that must be forwarded for one scanner statistic (trigger description / fatal text not compared)
pub open spec fn fwd_ok(i: InputStatType, o: StatType) -> bool {
    match i {
        InputStatType::LinksObserved(v) => o matches StatType::LinksObserved(w) && w == v,
        InputStatType::FeeId(v) => o matches StatType::FeeId(w) && w == v,
        InputStatType::RDHSeen(v) => o matches StatType::RDHSeen(w) && w == v,
        InputStatType::PayloadSize(v) => o matches StatType::PayloadSize(w) && w == v,
        InputStatType::RDHFiltered(v) => o matches StatType::RDHFiltered(w) && w == v,
        InputStatType::RunTriggerType(v) => o matches StatType::RunTriggerType(w) && w.0 == v,
        InputStatType::DataFormat(v) => o matches StatType::DataFormat(w) && w == v,
        InputStatType::SystemId(id) => if sys_ok(id) { o matches StatType::SystemId(s) && s == sys_of(id) } else { o is Fatal },
        InputStatType::Error(e) => o matches StatType::Error(f) && f == e,
        InputStatType::Fatal(e) => o matches StatType::Fatal(f) && f == e,
    }
}

pub struct RecvErr;
pub struct Receiver { pub queue: Ghost<Seq<InputStatType>>, pub taken: Ghost<int> }
impl Receiver {
    /// the k-th receive returns the k-th queued statistic, or Err once the queue is drained (all senders gone)
    #[verifier::external_body]
    pub fn recv(&mut self) -> (r: Result<InputStatType, RecvErr>)
        ensures final(self).queue == old(self).queue,
            old(self).taken@ < old(self).queue@.len() ==> (r matches Ok(x) && x == old(self).queue@[old(self).taken@] && final(self).taken@ == old(self).taken@ + 1),
            old(self).taken@ >= old(self).queue@.len() ==> (r is Err && final(self).taken == old(self).taken)
    { unimplemented!() }
}
pub struct SendErr;
pub struct Sender { pub log: Ghost<Seq<StatType>> }
impl Sender {
    #[verifier::external_body]
    pub fn send(&mut self, x: StatType) -> (r: Result<(), SendErr>)
        ensures r.is_ok(), final(self).log@ == old(self).log@.push(x)
    { unimplemented!() }
}

//@EXTRACT forward

} // verus!
impl core::fmt::Debug for SendErr { fn fmt(&self, _f: &mut core::fmt::Formatter<'_>) -> core::fmt::Result { Ok(()) } }
fn main() {}
