#!/bin/bash
# dev helper: run a check in the background in its own scratch; output to /tmp/fpv-bg/<tag>.out
tag=$1; shift
mkdir -p /tmp/fpv-bg
( VERIF_SCRATCH=/tmp/fpv-s-$tag VERIF_LOGDIR=/tmp/fpv-bg/$tag timeout 3000 ./check "$@" > /tmp/fpv-bg/$tag.out 2>&1; echo "rc=$?" >> /tmp/fpv-bg/$tag.out; grep -h 'Checking harness\|Verification Time\|Failed Checks\|^VERIFICATION\|^error' /tmp/fpv-bg/$tag/*.log | cut -c1-250 >> /tmp/fpv-bg/$tag.out; rm -rf /tmp/fpv-s-$tag ) &
